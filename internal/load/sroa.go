package load

import (
	"fmt"
	"go/ast"
	"go/token"
	"go/types"
	"os"
	"sort"
	"strings"

	"golang.org/x/tools/go/packages"
)

// ScalarReplace dissolves a local aggregate into one local variable per field (scalar replacement,
// at source level, after helper expansion). A refactoring that bundles the running state of a
// function (a counter, the lists it builds) into a small struct and hands a pointer to it from one
// helper to the next leaves, once the helpers are expanded into their caller, a function in which
// the struct is allocated once and only ever used through `x.field`. go/ssa keeps such fields as
// memory cells, so the counter and list rules (which follow SSA values) lose them; with the fields
// turned back into local variables the function has the shape it had before the refactoring.
//
// Conditions, all checked on the typed syntax (anything else leaves the function alone):
//   - the object is created by `x := &T{key: value, …}` (keyed or empty literal), T a struct type of
//     the module that the reference tree does not have (isNewStruct);
//   - the definition is not inside a loop (the one-iteration `for { … break }` wrappers of the
//     expander excepted);
//   - x and every local that is only ever assigned x, another such local, or nil (aliases) are used
//     only as `a.field` (not address-taken), as the source of such an assignment, or in `_ = a`.
//
// The alias assignments disappear, `a.field` becomes the field's variable, the definition becomes
// one assignment per field (listed values, zero for the rest).
func ScalarReplace(pkgs []*packages.Package, isNewStruct func(pkgPath, name string) bool, read func(string) ([]byte, error)) (map[string][]byte, []string) {
	overlay := map[string][]byte{}
	var notes []string
	counter := 0
	for _, p := range pkgs {
		for _, f := range p.Syntax {
			fname := p.Fset.Position(f.Pos()).Filename
			if strings.HasSuffix(fname, "_test.go") {
				continue
			}
			var src []byte
			var edits []edit
			var imps [][2]string
			off := func(pos token.Pos) int { return p.Fset.Position(pos).Offset }
			for _, d := range f.Decls {
				fd, ok := d.(*ast.FuncDecl)
				if !ok || fd.Body == nil {
					continue
				}
				es, is, ns := sroaFunc(p, f, fd, isNewStruct, &counter, func() []byte {
					if src == nil {
						b, err := read(fname)
						if err == nil {
							src = b
						}
					}
					return src
				}, off)
				edits = append(edits, es...)
				imps = append(imps, is...)
				notes = append(notes, ns...)
			}
			if len(edits) == 0 || src == nil {
				continue
			}
			sort.Slice(edits, func(i, j int) bool { return edits[i].start > edits[j].start })
			out := append([]byte{}, src...)
			ok := true
			for i, e := range edits {
				if i > 0 && e.end > edits[i-1].start {
					ok = false // overlapping edits: give up on this file
				}
			}
			if !ok {
				continue
			}
			for _, e := range edits {
				out = append(out[:e.start], append([]byte(e.text), out[e.end:]...)...)
			}
			if len(imps) > 0 {
				out = insertImports(out, imps)
			}
			overlay[fname] = out
		}
	}
	return overlay, notes
}

func sroaFunc(p *packages.Package, f *ast.File, fd *ast.FuncDecl, isNewStruct func(string, string) bool, counter *int,
	getSrc func() []byte, off func(token.Pos) int) ([]edit, [][2]string, []string) {
	info := p.TypesInfo
	// candidate roots
	type root struct {
		def   *ast.AssignStmt // x := &T{…}
		decl  *ast.GenDecl    // var x T   (byValue)
		spec  *ast.ValueSpec
		obj   types.Object
		lit   *ast.CompositeLit
		st    *types.Struct
		nm    *types.Named
		ident *ast.Ident
	}
	var roots []root
	// parents for loop test
	parents := map[ast.Node]ast.Node{}
	var stack []ast.Node
	ast.Inspect(fd.Body, func(n ast.Node) bool {
		if n == nil {
			stack = stack[:len(stack)-1]
			return true
		}
		if len(stack) > 0 {
			parents[n] = stack[len(stack)-1]
		}
		stack = append(stack, n)
		return true
	})
	oneShot := func(fs *ast.ForStmt) bool {
		if fs.Init != nil || fs.Cond != nil || fs.Post != nil || len(fs.Body.List) == 0 {
			return false
		}
		last, ok := fs.Body.List[len(fs.Body.List)-1].(*ast.BranchStmt)
		return ok && last.Tok == token.BREAK && last.Label == nil
	}
	inLoop := func(n ast.Node) bool {
		for x := parents[n]; x != nil; x = parents[x] {
			switch y := x.(type) {
			case *ast.ForStmt:
				if !oneShot(y) {
					return true
				}
			case *ast.RangeStmt:
				return true
			case *ast.FuncLit:
				return true
			}
		}
		return false
	}
	ast.Inspect(fd.Body, func(n ast.Node) bool {
		as, ok := n.(*ast.AssignStmt)
		if !ok || as.Tok != token.DEFINE || len(as.Lhs) != 1 || len(as.Rhs) != 1 {
			return true
		}
		id, ok := as.Lhs[0].(*ast.Ident)
		if !ok {
			return true
		}
		ue, ok := sroaUnparen(as.Rhs[0]).(*ast.UnaryExpr)
		if !ok || ue.Op != token.AND {
			return true
		}
		lit, ok := sroaUnparen(ue.X).(*ast.CompositeLit)
		if !ok {
			return true
		}
		tv, ok := info.Types[lit]
		if !ok {
			return true
		}
		nm, ok := tv.Type.(*types.Named)
		if !ok || nm.Obj().Pkg() == nil || !isNewStruct(nm.Obj().Pkg().Path(), nm.Obj().Name()) {
			return true
		}
		st, ok := nm.Underlying().(*types.Struct)
		if !ok {
			return true
		}
		for _, e := range lit.Elts {
			if _, keyed := e.(*ast.KeyValueExpr); !keyed {
				return true
			}
		}
		if inLoop(as) || info.Defs[id] == nil {
			return true
		}
		roots = append(roots, root{def: as, obj: info.Defs[id], lit: lit, st: st, nm: nm, ident: id})
		return true
	})
	// `var x T` of a new struct type (zero value), handed around as &x
	ast.Inspect(fd.Body, func(n ast.Node) bool {
		ds, ok := n.(*ast.DeclStmt)
		if !ok {
			return true
		}
		gd, ok := ds.Decl.(*ast.GenDecl)
		if !ok || gd.Tok != token.VAR || len(gd.Specs) != 1 {
			return true
		}
		vs, ok := gd.Specs[0].(*ast.ValueSpec)
		if !ok || len(vs.Names) != 1 || len(vs.Values) != 0 || vs.Type == nil {
			return true
		}
		obj := info.Defs[vs.Names[0]]
		if obj == nil {
			return true
		}
		nm, ok := obj.Type().(*types.Named)
		if !ok || nm.Obj().Pkg() == nil || !isNewStruct(nm.Obj().Pkg().Path(), nm.Obj().Name()) {
			return true
		}
		st, ok := nm.Underlying().(*types.Struct)
		if !ok || inLoop(ds) {
			return true
		}
		roots = append(roots, root{decl: gd, spec: vs, obj: obj, st: st, nm: nm, ident: vs.Names[0]})
		return true
	})
	if len(roots) == 0 {
		return nil, nil, nil
	}
	var edits []edit
	var imps [][2]string
	var notes []string
	for _, r := range roots {
		alias := map[types.Object]bool{r.obj: true}
		isAliasSrc := func(e ast.Expr) bool {
			switch x := e.(type) {
			case *ast.Ident:
				if x.Name == "nil" && info.Uses[x] == types.Universe.Lookup("nil") {
					return true
				}
				return alias[info.Uses[x]]
			case *ast.UnaryExpr:
				if x.Op == token.AND && r.decl != nil {
					if id, ok := x.X.(*ast.Ident); ok && info.Uses[id] == r.obj {
						return true
					}
				}
			}
			return false
		}
		rootAddr := func(e ast.Expr) *ast.Ident {
			if x, ok := e.(*ast.UnaryExpr); ok && x.Op == token.AND && r.decl != nil {
				if id, ok := x.X.(*ast.Ident); ok && info.Uses[id] == r.obj {
					return id
				}
			}
			return nil
		}
		// assignments per object
		type asg struct {
			stmt ast.Node // *ast.AssignStmt or *ast.ValueSpec (via DeclStmt)
			idx  int
			rhs  ast.Expr // nil for `var y *T`
		}
		assigns := map[types.Object][]asg{}
		ast.Inspect(fd.Body, func(n ast.Node) bool {
			switch x := n.(type) {
			case *ast.AssignStmt:
				if len(x.Lhs) != len(x.Rhs) {
					// multi-value call on the right: any local of our type assigned here is not an alias
					for _, l := range x.Lhs {
						if id, ok := l.(*ast.Ident); ok {
							o := info.Defs[id]
							if o == nil {
								o = info.Uses[id]
							}
							if o != nil {
								assigns[o] = append(assigns[o], asg{x, -1, nil})
							}
						}
					}
					return true
				}
				for i, l := range x.Lhs {
					id, ok := l.(*ast.Ident)
					if !ok || id.Name == "_" {
						continue
					}
					o := info.Defs[id]
					if o == nil {
						o = info.Uses[id]
					}
					if o != nil {
						assigns[o] = append(assigns[o], asg{x, i, x.Rhs[i]})
					}
				}
			case *ast.ValueSpec:
				for i, id := range x.Names {
					o := info.Defs[id]
					if o == nil {
						continue
					}
					var rhs ast.Expr
					if len(x.Values) == len(x.Names) {
						rhs = x.Values[i]
					} else if len(x.Values) != 0 {
						assigns[o] = append(assigns[o], asg{x, -1, nil})
						continue
					}
					assigns[o] = append(assigns[o], asg{x, i, rhs})
				}
			}
			return true
		})
		ptrT := types.NewPointer(r.nm)
		for changed := true; changed; {
			changed = false
			for o, as := range assigns {
				if alias[o] {
					continue
				}
				v, ok := o.(*types.Var)
				if !ok || v.IsField() || !types.Identical(v.Type(), ptrT) {
					continue
				}
				all := true
				some := false
				for _, a := range as {
					if a.idx < 0 {
						all = false
						break
					}
					if a.rhs == nil {
						continue // var y *T
					}
					if !isAliasSrc(a.rhs) {
						all = false
						break
					}
					if id, ok := a.rhs.(*ast.Ident); ok && alias[info.Uses[id]] {
						some = true
					}
					if rootAddr(a.rhs) != nil {
						some = true
					}
				}
				if all && some {
					alias[o] = true
					changed = true
				}
			}
		}
		// the root itself must have exactly its definition as assignment
		if len(assigns[r.obj]) != 1 {
			sroaDebug("give up at line 338")
			continue
		}
		if r.decl != nil {
			// the by-value root is no pointer alias of itself in assignments, only through &x
			for o := range alias {
				if o != r.obj {
					if _, isPtr := o.Type().(*types.Pointer); !isPtr {
						delete(alias, o)
					}
				}
			}
		}
		// every use of an alias is allowed
		okUses := true
		type selUse struct {
			sel *ast.SelectorExpr
			fld *types.Var
		}
		var sels []selUse
		handled := map[*ast.Ident]bool{}
		ast.Inspect(fd.Body, func(n ast.Node) bool {
			if !okUses {
				return false
			}
			switch x := n.(type) {
			case *ast.SelectorExpr:
				if id, ok := sroaUnparen(x.X).(*ast.Ident); ok && alias[info.Uses[id]] {
					sel, isSel := info.Selections[x]
					if !isSel || sel.Kind() != types.FieldVal || len(sel.Index()) != 1 {
						okUses = false
						return false
					}
					if ue, ok := parents[x].(*ast.UnaryExpr); ok && ue.Op == token.AND {
						okUses = false
						return false
					}
					sels = append(sels, selUse{x, sel.Obj().(*types.Var)})
					handled[id] = true
					return false
				}
			}
			return true
		})
		if !okUses {
			sroaDebug("give up at line 382")
			continue
		}
		// statements to rewrite: alias assignments
		type stmtEdit struct {
			node ast.Node
			drop map[int]bool
		}
		byStmt := map[ast.Node]*stmtEdit{}
		for o := range alias {
			for _, a := range assigns[o] {
				if (r.def != nil && a.stmt == ast.Node(r.def)) || (r.spec != nil && a.stmt == ast.Node(r.spec)) {
					sroaDebug("give up at line 393")
					continue
				}
				se := byStmt[a.stmt]
				if se == nil {
					se = &stmtEdit{a.stmt, map[int]bool{}}
					byStmt[a.stmt] = se
				}
				se.drop[a.idx] = true
				switch s := a.stmt.(type) {
				case *ast.AssignStmt:
					if id, ok := s.Lhs[a.idx].(*ast.Ident); ok {
						handled[id] = true
					}
					if id, ok := s.Rhs[a.idx].(*ast.Ident); ok {
						handled[id] = true
					}
					if id := rootAddr(s.Rhs[a.idx]); id != nil {
						handled[id] = true
					}
				case *ast.ValueSpec:
					handled[s.Names[a.idx]] = true
					if a.rhs != nil {
						if id, ok := a.rhs.(*ast.Ident); ok {
							handled[id] = true
						}
						if id := rootAddr(a.rhs); id != nil {
							handled[id] = true
						}
					}
				}
			}
		}
		// `_ = a`
		var blanks []*ast.AssignStmt
		ast.Inspect(fd.Body, func(n ast.Node) bool {
			if as, ok := n.(*ast.AssignStmt); ok && as.Tok == token.ASSIGN && len(as.Lhs) == 1 && len(as.Rhs) == 1 {
				if l, ok := as.Lhs[0].(*ast.Ident); ok && l.Name == "_" {
					if rid, ok := as.Rhs[0].(*ast.Ident); ok && alias[info.Uses[rid]] {
						blanks = append(blanks, as)
						handled[rid] = true
					}
				}
			}
			return true
		})
		// the root's defining ident
		handled[r.ident] = true
		// any other mention of an alias → give up
		ast.Inspect(fd.Body, func(n ast.Node) bool {
			if id, ok := n.(*ast.Ident); ok && !handled[id] {
				o := info.Uses[id]
				if o == nil {
					o = info.Defs[id]
				}
				if o != nil && alias[o] {
					okUses = false
					sroaDebug(fmt.Sprintf("unhandled mention of %s at %s", id.Name, p.Fset.Position(id.Pos())))
				}
			}
			return okUses
		})
		if !okUses {
			sroaDebug("give up at line 454")
			continue
		}
		src := getSrc()
		if src == nil {
			sroaDebug("give up at line 458")
			continue
		}
		*counter++
		n := *counter
		varName := func(fl *types.Var) string { return fmt.Sprintf("_sr%d_%s", n, fl.Name()) }
		// declarations at function start
		var decl strings.Builder
		decl.WriteString("\n")
		okTypes := true
		typeOf := map[string]string{}
		for i := 0; i < r.st.NumFields(); i++ {
			fl := r.st.Field(i)
			tt, im, ok := typeText(p, f, fl.Type())
			if !ok {
				okTypes = false
			}
			imps = append(imps, im...)
			typeOf[fl.Name()] = tt
			decl.WriteString(fmt.Sprintf("var %s %s; _ = %s; ", varName(fl), tt, varName(fl)))
		}
		if !okTypes {
			sroaDebug("give up at line 479")
			continue
		}
		var local []edit
		local = append(local, edit{off(fd.Body.Lbrace) + 1, off(fd.Body.Lbrace) + 1, decl.String()})
		// definition → field assignments
		var def strings.Builder
		def.WriteString("{ ")
		given := map[string]bool{}
		var elts []ast.Expr
		if r.lit != nil {
			elts = r.lit.Elts
		}
		for _, e := range elts {
			kv := e.(*ast.KeyValueExpr)
			k, ok := kv.Key.(*ast.Ident)
			if !ok {
				okTypes = false
				break
			}
			given[k.Name] = true
			def.WriteString(fmt.Sprintf("_sr%d_%s = %s; ", n, k.Name, string(src[off(kv.Value.Pos()):off(kv.Value.End())])))
		}
		if !okTypes {
			sroaDebug("give up at line 502")
			continue
		}
		for i := 0; i < r.st.NumFields(); i++ {
			fl := r.st.Field(i)
			if !given[fl.Name()] {
				if zeroIsNil(fl.Type()) {
					def.WriteString(fmt.Sprintf("%s = nil; ", varName(fl)))
				} else {
					def.WriteString(fmt.Sprintf("%s = *new(%s); ", varName(fl), typeOf[fl.Name()]))
				}
			}
		}
		def.WriteString("}")
		if r.def != nil {
			local = append(local, edit{off(r.def.Pos()), off(r.def.End()), def.String()})
		} else {
			local = append(local, edit{off(r.decl.Pos()), off(r.decl.End()), def.String()})
		}
		// selectors
		for _, s := range sels {
			local = append(local, edit{off(s.sel.Pos()), off(s.sel.End()), varName(s.fld)})
		}
		// alias statements
		bad := false
		for _, se := range byStmt {
			switch s := se.node.(type) {
			case *ast.AssignStmt:
				var ls, rs []string
				for i := range s.Lhs {
					if se.drop[i] {
						sroaDebug("give up at line 528")
						continue
					}
					ls = append(ls, string(src[off(s.Lhs[i].Pos()):off(s.Lhs[i].End())]))
					rs = append(rs, string(src[off(s.Rhs[i].Pos()):off(s.Rhs[i].End())]))
				}
				text := "{}"
				if len(ls) > 0 {
					text = strings.Join(ls, ", ") + " " + s.Tok.String() + " " + strings.Join(rs, ", ")
				}
				// an assignment used as the init of an if/for/switch cannot become a block
				if _, isBlockItem := parents[s].(*ast.BlockStmt); !isBlockItem && len(ls) == 0 {
					_, isCase := parents[s].(*ast.CaseClause)
					_, isComm := parents[s].(*ast.CommClause)
					_, isLabeled := parents[s].(*ast.LabeledStmt)
					if !isCase && !isLabeled && !(isComm && parents[s].(*ast.CommClause).Comm != ast.Stmt(s)) {
						bad = true
					}
				}
				local = append(local, edit{off(s.Pos()), off(s.End()), text})
			case *ast.ValueSpec:
				if len(s.Names) != 1 {
					bad = true
					break
				}
				// the enclosing DeclStmt: `var y *T` → nothing
				gd, ok := parents[s].(*ast.GenDecl)
				if !ok || len(gd.Specs) != 1 {
					bad = true
					break
				}
				local = append(local, edit{off(gd.Pos()), off(gd.End()), "{}"})
			}
		}
		for _, b := range blanks {
			local = append(local, edit{off(b.Pos()), off(b.End()), "{}"})
		}
		if bad {
			sroaDebug("give up at line 564")
			continue
		}
		// selector edits inside a rewritten statement would overlap: check
		sort.Slice(local, func(i, j int) bool { return local[i].start < local[j].start })
		overlap := false
		for i := 1; i < len(local); i++ {
			if local[i].start < local[i-1].end {
				overlap = true
			}
		}
		if overlap {
			// re-render statements that contain selectors is not supported
			sroaDebug("give up at line 576")
			continue
		}
		edits = append(edits, local...)
		notes = append(notes, fmt.Sprintf("local %s object of %s (only used through its fields) analysed as one variable per field", r.nm.Obj().Name(), fd.Name.Name))
	}
	return edits, imps, notes
}

func sroaDebug(msg string) {
	if os.Getenv("VCHECK_DEBUG_SROA") != "" {
		fmt.Println("sroa:", msg)
	}
}

func sroaUnparen(e ast.Expr) ast.Expr {
	for {
		p, ok := e.(*ast.ParenExpr)
		if !ok {
			return e
		}
		e = p.X
	}
}

// zeroIsNil: the zero value of t is written `nil`.
func zeroIsNil(t types.Type) bool {
	switch t.Underlying().(type) {
	case *types.Interface, *types.Pointer, *types.Slice, *types.Map, *types.Chan, *types.Signature:
		return true
	}
	return false
}
