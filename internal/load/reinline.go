package load

import (
	"bytes"
	"fmt"
	"go/ast"
	"go/constant"
	"go/token"
	"go/types"
	"sort"
	"strings"

	"golang.org/x/tools/go/ast/astutil"
	"golang.org/x/tools/go/packages"
)

// Re-inlining of new helpers.
//
// The rule instances are confirmed against the functions of the reference tree (anchors.json). The
// most common behaviour-preserving edit, "extract method", moves a guard together with its early
// return, or a block of effects, into a NEW function. Rules that reason about one function's
// control flow would then lose sight of the guard. Before analysis, every call to a function of
// the two packages that does not exist in the reference tree (and is not a pure rename) is
// therefore expanded in place at source level, and the program is re-loaded from an overlay; the
// rules then see the same shape as before the extraction — or, if the "extraction" changed
// behaviour (e.g. added an early success return), they see that. Functions of the reference tree
// are never inlined, so the unchanged tree is analysed exactly as written.
//
// The expansion of `S[call]` is
//     _ia0 := recv; _ia1 := arg1 …          (arguments evaluated once, in order)
//     var _ir0 T0 …                          (results)
//     _ilN: for { p := _ia1 …; <body with `return a,b` → `_ir0,_ir1 = a,b; break _ilN`>; break }
//     S[_ir0,…]
// A call that cannot be expanded safely (defer/recover/named results/variadic, unsupported
// statement position, name capture) is left alone; the note says so.

type inlineSite struct {
	file   *ast.File
	pkg    *packages.Package
	call   *ast.CallExpr
	callee *calleeDecl
	fn     types.Object // *types.Func, or the *types.Var holding a local closure
}

// calleeDecl is what gets expanded: a declared function or a local closure `name := func(…){…}`.
type calleeDecl struct {
	Name *ast.Ident
	Type *ast.FuncType
	Body *ast.BlockStmt
	Recv *ast.FieldList
	Lit  *ast.FuncLit
	Def  *ast.AssignStmt // the `name := func…` statement of a local closure
	Sig  *types.Signature
}

func (c *calleeDecl) Pos() token.Pos { return c.Body.Pos() }

// localClosures finds `name := func(…) {…}` in fd where name is never reassigned and is only ever
// called directly (not passed on, not deferred, not started as a goroutine).
func localClosures(p *packages.Package, fd *ast.FuncDecl) map[types.Object]*calleeDecl {
	out := map[types.Object]*calleeDecl{}
	ast.Inspect(fd.Body, func(n ast.Node) bool {
		as, ok := n.(*ast.AssignStmt)
		if !ok || as.Tok != token.DEFINE || len(as.Lhs) != 1 || len(as.Rhs) != 1 {
			return true
		}
		lit, ok := as.Rhs[0].(*ast.FuncLit)
		id, ok2 := as.Lhs[0].(*ast.Ident)
		if !ok || !ok2 || id.Name == "_" {
			return true
		}
		obj := p.TypesInfo.Defs[id]
		if obj == nil {
			return true
		}
		sig, _ := obj.Type().(*types.Signature)
		if sig == nil {
			return true
		}
		out[obj] = &calleeDecl{Name: id, Type: lit.Type, Body: lit.Body, Lit: lit, Def: as, Sig: sig}
		return true
	})
	if len(out) == 0 {
		return out
	}
	// every use must be the function position of a plain call statement/expression
	callFun := map[*ast.Ident]bool{}
	ast.Inspect(fd.Body, func(n ast.Node) bool {
		switch x := n.(type) {
		case *ast.CallExpr:
			if id, ok := x.Fun.(*ast.Ident); ok {
				callFun[id] = true
			}
		case *ast.GoStmt:
			if id, ok := x.Call.Fun.(*ast.Ident); ok {
				delete(out, p.TypesInfo.Uses[id])
			}
		case *ast.DeferStmt:
			if id, ok := x.Call.Fun.(*ast.Ident); ok {
				delete(out, p.TypesInfo.Uses[id])
			}
		}
		return true
	})
	ast.Inspect(fd.Body, func(n ast.Node) bool {
		id, ok := n.(*ast.Ident)
		if !ok {
			return true
		}
		if obj := p.TypesInfo.Uses[id]; obj != nil && out[obj] != nil && !callFun[id] {
			delete(out, obj)
		}
		return true
	})
	// a closure that calls itself or whose body uses go/defer is left alone by expand
	return out
}

// expandCounter numbers the temporaries of all expansions of a process.
var expandCounter int

type edit struct {
	start, end int
	text       string
}

// Reinline returns an overlay (filename → new content) and notes. isNew says which functions are
// not part of the reference tree.
func Reinline(pkgs []*packages.Package, isNew func(*types.Func) bool, read func(string) ([]byte, error)) (map[string][]byte, []string) {
	overlay := map[string][]byte{}
	var notes []string
	decls := map[*types.Func]*calleeDecl{}
	declPkg := map[*types.Func]*packages.Package{}
	for _, p := range pkgs {
		for _, f := range p.Syntax {
			for _, d := range f.Decls {
				if fd, ok := d.(*ast.FuncDecl); ok && fd.Body != nil {
					if obj, ok := p.TypesInfo.Defs[fd.Name].(*types.Func); ok {
						sig, _ := obj.Type().(*types.Signature)
						decls[obj] = &calleeDecl{Name: fd.Name, Type: fd.Type, Body: fd.Body, Recv: fd.Recv, Sig: sig}
						declPkg[obj] = p
					}
				}
			}
		}
	}
	for _, p := range pkgs {
		for _, f := range p.Syntax {
			fname := p.Fset.Position(f.Pos()).Filename
			src, err := read(fname)
			if err != nil {
				continue
			}
			var edits []edit
			var addImports [][2]string
			// collect call sites (outermost first; nested ones are handled by the next round)
			var sites []inlineSite
			closureUses := map[types.Object]int{}
			closureDone := map[types.Object]int{}
			closureDecl := map[types.Object]*calleeDecl{}
			for _, d := range f.Decls {
				fd, ok := d.(*ast.FuncDecl)
				if !ok || fd.Body == nil {
					continue
				}
				cl := localClosures(p, fd)
				if len(cl) == 0 {
					continue
				}
				ast.Inspect(fd.Body, func(n ast.Node) bool {
					call, ok := n.(*ast.CallExpr)
					if !ok {
						return true
					}
					if id, ok := call.Fun.(*ast.Ident); ok {
						if obj := p.TypesInfo.Uses[id]; obj != nil && cl[obj] != nil {
							// not a call from inside the closure itself
							if !(cl[obj].Lit.Pos() <= call.Pos() && call.End() <= cl[obj].Lit.End()) {
								sites = append(sites, inlineSite{f, p, call, cl[obj], obj})
								closureUses[obj]++
								closureDecl[obj] = cl[obj]
							}
						}
					}
					return true
				})
			}
			ast.Inspect(f, func(n ast.Node) bool {
				call, ok := n.(*ast.CallExpr)
				if !ok {
					return true
				}
				var id *ast.Ident
				switch fun := call.Fun.(type) {
				case *ast.Ident:
					id = fun
				case *ast.SelectorExpr:
					id = fun.Sel
				}
				if id == nil {
					return true
				}
				fn, ok := p.TypesInfo.Uses[id].(*types.Func)
				if !ok || !isNew(fn) || decls[fn] == nil || declPkg[fn] != p {
					return true
				}
				sites = append(sites, inlineSite{f, p, call, decls[fn], fn})
				return true
			})
			// skip sites nested inside another site's statement or inside a new helper's own body
			// (the helper's body is expanded where it is called)
			used := []edit{}
			for _, s := range sites {
				encl := enclosingFunc(f, s.call.Pos())
				if encl != nil {
					if obj, ok := p.TypesInfo.Defs[encl.Name].(*types.Func); ok && isNew(obj) {
						continue
					}
				}
				if encl == nil {
					continue
				}
				expandCounter++
				ed, imps, note := expand(p, f, src, s, expandCounter, read)
				if ed == nil {
					notes = append(notes, fmt.Sprintf("new helper %s: call at %s left as is (%s)", s.fn.Name(), p.Fset.Position(s.call.Pos()), note))
					continue
				}
				overlap := false
				for _, u := range used {
					if ed.start < u.end && u.start < ed.end {
						overlap = true
					}
				}
				if overlap {
					continue // next round
				}
				used = append(used, *ed)
				edits = append(edits, *ed)
				addImports = append(addImports, imps...)
				if _, isVar := s.fn.(*types.Var); isVar {
					closureDone[s.fn]++
					notes = append(notes, fmt.Sprintf("local closure %s expanded at its call in %s (%s)", s.fn.Name(), encl.Name.Name, shortPos(p.Fset.Position(s.call.Pos()))))
				} else {
					notes = append(notes, fmt.Sprintf("new helper %s expanded at its call in %s (%s)", s.fn.Name(), encl.Name.Name, shortPos(p.Fset.Position(s.call.Pos()))))
				}
			}
			// a closure all of whose calls were expanded is no longer used
			for obj, n := range closureUses {
				if closureDone[obj] == n {
					// remove the definition: the variables it captured become plain locals again
					d := closureDecl[obj].Def
					ds, de := p.Fset.Position(d.Pos()).Offset, p.Fset.Position(d.End()).Offset
					// expansions made inside the removed literal go with it (its body was copied to
					// the call sites as it was; calls in it are expanded there in the next round)
					kept := edits[:0]
					for _, e := range edits {
						if !(ds <= e.start && e.end <= de) {
							kept = append(kept, e)
						}
					}
					edits = append(kept, edit{ds, de, ""})
				}
			}
			if len(edits) == 0 {
				continue
			}
			sort.Slice(edits, func(i, j int) bool { return edits[i].start > edits[j].start })
			out := append([]byte{}, src...)
			for _, e := range edits {
				out = append(out[:e.start], append([]byte(e.text), out[e.end:]...)...)
			}
			if len(addImports) > 0 {
				out = insertImports(out, addImports)
			}
			overlay[fname] = out
		}
	}
	return overlay, notes
}

func shortPos(p token.Position) string {
	f := p.Filename
	if i := strings.LastIndex(f, "/"); i >= 0 {
		f = f[i+1:]
	}
	return fmt.Sprintf("%s:%d", f, p.Line)
}

func enclosingFunc(f *ast.File, pos token.Pos) *ast.FuncDecl {
	for _, d := range f.Decls {
		if fd, ok := d.(*ast.FuncDecl); ok && fd.Pos() <= pos && pos < fd.End() {
			return fd
		}
	}
	return nil
}

func insertImports(src []byte, imps [][2]string) []byte {
	seen := map[string]bool{}
	var lines []string
	for _, im := range imps {
		k := im[0] + " " + im[1]
		if seen[k] {
			continue
		}
		seen[k] = true
		lines = append(lines, fmt.Sprintf("import %s %q", im[0], im[1]))
	}
	// after the package clause line
	idx := bytes.Index(src, []byte("\npackage "))
	start := 0
	if bytes.HasPrefix(src, []byte("package ")) {
		start = 0
	} else if idx >= 0 {
		start = idx + 1
	}
	nl := bytes.IndexByte(src[start:], '\n')
	if nl < 0 {
		return src
	}
	at := start + nl + 1
	ins := []byte(strings.Join(lines, "\n") + "\n")
	return append(src[:at], append(ins, src[at:]...)...)
}

func hasCallOrRecv(e ast.Expr) bool {
	found := false
	ast.Inspect(e, func(n ast.Node) bool {
		switch x := n.(type) {
		case *ast.CallExpr:
			found = true
		case *ast.UnaryExpr:
			if x.Op == token.ARROW {
				found = true
			}
		case *ast.FuncLit:
			return false
		}
		return true
	})
	return found
}

// expand builds the edit replacing the statement that contains the call.
func expand(p *packages.Package, f *ast.File, src []byte, s inlineSite, n int, read func(string) ([]byte, error)) (*edit, [][2]string, string) {
	fset := p.Fset
	off := func(pos token.Pos) int { return fset.Position(pos).Offset }
	text := func(a, b token.Pos) string { return string(src[off(a):off(b)]) }
	callee := s.callee
	sig := callee.Sig
	if sig == nil {
		return nil, nil, "no signature"
	}
	if sig.Variadic() {
		return nil, nil, "variadic"
	}
	// named results become local variables of the expansion
	var resultNames []string
	namedResults := false
	if callee.Type.Results != nil {
		for _, r := range callee.Type.Results.List {
			for _, nm := range r.Names {
				namedResults = true
				resultNames = append(resultNames, nm.Name)
			}
		}
		if namedResults && len(resultNames) != sig.Results().Len() {
			return nil, nil, "partly named results"
		}
	}
	// callee body restrictions
	bad := ""
	var returns []*ast.ReturnStmt
	var defers []*ast.DeferStmt
	var labelIdents []*ast.Ident // the helper's own labels are renamed per expansion
	topLevel := map[ast.Stmt]bool{}
	for _, st := range callee.Body.List {
		topLevel[st] = true
	}
	ast.Inspect(callee.Body, func(nn ast.Node) bool {
		switch x := nn.(type) {
		case *ast.FuncLit:
			return false
		case *ast.DeferStmt:
			// only `defer recv.Method()` / `defer fn()` without arguments, as a top-level statement
			okDefer := topLevel[x] && len(x.Call.Args) == 0
			switch fun := x.Call.Fun.(type) {
			case *ast.Ident:
			case *ast.SelectorExpr:
				if hasCallOrRecv(fun.X) {
					okDefer = false
				}
			default:
				okDefer = false
			}
			if !okDefer {
				bad = "defer in helper (not a plain top-level `defer x.M()`)"
			}
			defers = append(defers, x)
			return false
		case *ast.GoStmt:
			bad = "go statement in helper"
		case *ast.CallExpr:
			if id, ok := x.Fun.(*ast.Ident); ok && id.Name == "recover" {
				bad = "recover in helper"
			}
			if id, ok := x.Fun.(*ast.Ident); ok && p.TypesInfo.Uses[id] == s.fn {
				bad = "recursive helper"
			}
			if sel, ok := x.Fun.(*ast.SelectorExpr); ok && p.TypesInfo.Uses[sel.Sel] == s.fn {
				bad = "recursive helper"
			}
		case *ast.ReturnStmt:
			returns = append(returns, x)
		case *ast.LabeledStmt:
			labelIdents = append(labelIdents, x.Label)
		case *ast.BranchStmt:
			if x.Label != nil {
				labelIdents = append(labelIdents, x.Label)
			}
			if x.Tok == token.GOTO {
				bad = "goto in helper"
			}
		}
		return true
	})
	if bad != "" {
		return nil, nil, bad
	}
	// the callee's source text may be in another file
	calleeFile := fset.Position(callee.Pos()).Filename
	csrc := src
	if calleeFile != fset.Position(f.Pos()).Filename {
		b, err := read(calleeFile)
		if err != nil {
			return nil, nil, "helper source unreadable"
		}
		csrc = b
	}
	ctext := func(a, b token.Pos) string { return string(csrc[off(a):off(b)]) }

	// enclosing statement
	path, _ := astutil.PathEnclosingInterval(f, s.call.Pos(), s.call.End())
	var stmt ast.Stmt
	for i, nd := range path {
		if _, isFn := nd.(*ast.FuncLit); isFn {
			break
		}
		st, ok := nd.(ast.Stmt)
		if !ok {
			continue
		}
		if i+1 < len(path) {
			switch par := path[i+1].(type) {
			case *ast.BlockStmt, *ast.CaseClause:
				stmt = st
			case *ast.CommClause:
				if par.Comm == st {
					// `case <-time.After(helper(x)):` — the operands of a select are evaluated on
					// entry, together; nothing can be put in front of one of them
					return nil, nil, "call is an operand of a select case"
				}
				stmt = st
			case *ast.IfStmt:
				// `else if cond(helper())`: the inner if is replaced by a block
				if ifs, isIf := st.(*ast.IfStmt); isIf && par.Else == ast.Stmt(ifs) {
					stmt = st
				}
			}
		}
		if stmt != nil {
			break
		}
	}
	if stmt == nil {
		return nil, nil, "call is not inside a plain statement"
	}

	// pure expression helper: body is `return expr`, args are simple
	if len(callee.Body.List) == 1 && len(returns) == 1 && len(returns[0].Results) == 1 && len(defers) == 0 {
		simple := true
		for _, a := range s.call.Args {
			if hasCallOrRecv(a) {
				simple = false
			}
		}
		if sel, ok := s.call.Fun.(*ast.SelectorExpr); ok && hasCallOrRecv(sel.X) {
			simple = false
		}
		if simple {
			if e, imps, ok := substExpr(p, f, src, csrc, s, returns[0].Results[0]); ok {
				// `defer helper(x)` / `go helper(x)`: the statement needs a call, unparenthesised;
				// the helper's arguments are evaluated at the defer statement either way (they are
				// simple) and its body — one call — runs deferred
				deferred := false
				switch st := stmt.(type) {
				case *ast.DeferStmt:
					deferred = st.Call == s.call
				case *ast.GoStmt:
					deferred = st.Call == s.call
				}
				if deferred {
					if _, isCall := returns[0].Results[0].(*ast.CallExpr); !isCall {
						return nil, nil, "deferred helper whose body is not a call"
					}
					return &edit{off(s.call.Pos()), off(s.call.End()), e}, imps, ""
				}
				return &edit{off(s.call.Pos()), off(s.call.End()), "(" + e + ")"}, imps, ""
			}
		}
	}

	nres := sig.Results().Len()
	var resNames []string
	for i := 0; i < nres; i++ {
		resNames = append(resNames, fmt.Sprintf("_ir%d_%d", n, i))
	}
	resList := strings.Join(resNames, ", ")

	// Where in the statement is the call evaluated? `region` is the part of the statement whose
	// evaluation contains the call; calls that are evaluated before it are hoisted too.
	var region ast.Node
	scCond := ""       // flag variable of the short-circuit form
	var preInit string // an if's Init when the call is in Cond
	tail := false      // `return helper(…)`
	dropStmt := false  // the statement is just the call
	switch st := stmt.(type) {
	case *ast.ExprStmt:
		region = st
		if st.X == ast.Expr(s.call) {
			dropStmt = true
		}
	case *ast.AssignStmt, *ast.SendStmt, *ast.IncDecStmt:
		region = st
	case *ast.ReturnStmt:
		region = st
		if len(st.Results) == 1 && st.Results[0] == ast.Expr(s.call) && nres > 0 && len(defers) == 0 && !namedResults {
			tail = true
		}
	case *ast.IfStmt:
		inInit := st.Init != nil && st.Init.Pos() <= s.call.Pos() && s.call.End() <= st.Init.End()
		inCond := st.Cond.Pos() <= s.call.Pos() && s.call.End() <= st.Cond.End()
		switch {
		case inInit:
			region = st.Init
		case inCond:
			region = st.Cond
			if st.Init != nil {
				preInit = text(st.Init.Pos(), st.Init.End())
			}
		default:
			return nil, nil, "call inside the if body is handled by its own statement"
		}
	case *ast.RangeStmt:
		if !(st.X.Pos() <= s.call.Pos() && s.call.End() <= st.X.End()) {
			return nil, nil, "call is not in the ranged expression"
		}
		region = st.X
	default:
		return nil, nil, fmt.Sprintf("unsupported statement %T", stmt)
	}
	// `if X && helper() {…}` / `if X || helper() {…}`: the helper runs only when X decides nothing;
	// expanded as  c := false|true; if X | !(X) { <expansion>; c = Y' }; if c {…}
	scOpen, scAssign := "", ""
	if ifs, ok := stmt.(*ast.IfStmt); ok && region == ast.Node(ifs.Cond) && nres == 1 {
		cond := ifs.Cond
		for {
			if pe, ok := cond.(*ast.ParenExpr); ok {
				cond = pe.X
				continue
			}
			break
		}
		if be, ok := cond.(*ast.BinaryExpr); ok && (be.Op == token.LAND || be.Op == token.LOR) &&
			be.Y.Pos() <= s.call.Pos() && s.call.End() <= be.Y.End() && !hasCallOrRecvExcept(be.Y, s.call) && !underShortCircuit(be.Y, s.call) {
			cv := fmt.Sprintf("_ic%d", n)
			xs := text(be.X.Pos(), be.X.End())
			ys := text(be.Y.Pos(), s.call.Pos()) + resNames[0] + text(s.call.End(), be.Y.End())
			if be.Op == token.LAND {
				scOpen = "var " + cv + " bool\nif " + xs + " {\n"
			} else {
				scOpen = "var " + cv + " bool = true\nif !(" + xs + ") {\n"
			}
			scAssign = cv + " = " + ys + "\n}\n"
			region = be.Y
			_ = region
			// the rewritten statement tests the flag
			scCond = cv
		}
	}
	// not under the right operand of && / ||, not inside a function literal
	if scOpen == "" {
		rpath, _ := astutil.PathEnclosingInterval(f, s.call.Pos(), s.call.End())
		for i, nd := range rpath {
			if be, ok := nd.(*ast.BinaryExpr); ok && (be.Op == token.LAND || be.Op == token.LOR) && i > 0 {
				if be.Y.Pos() <= s.call.Pos() && s.call.End() <= be.Y.End() {
					return nil, nil, "call is evaluated conditionally (right operand of && / ||)"
				}
			}
			if _, ok := nd.(*ast.FuncLit); ok {
				return nil, nil, "call is inside a function literal"
			}
			if nd == region {
				break
			}
		}
	}
	// calls evaluated before the helper call inside the region (outermost, lexically before)
	type hoist struct {
		call *ast.CallExpr
		name string
		typ  string
	}
	var hoists []hoist
	var imps [][2]string
	hoistBad := ""
	if !dropStmt && !tail && scOpen == "" {
		var visit func(nd ast.Node, conditional bool)
		visit = func(nd ast.Node, conditional bool) {
			ast.Inspect(nd, func(x ast.Node) bool {
				if x == nil || hoistBad != "" {
					return false
				}
				switch y := x.(type) {
				case *ast.FuncLit:
					return false
				case *ast.BinaryExpr:
					if y.Op == token.LAND || y.Op == token.LOR {
						visit(y.X, conditional)
						if y.Y.End() <= s.call.Pos() {
							// a conditionally evaluated call before the helper call
							if hasCallOrRecv(y.Y) {
								hoistBad = "a conditionally evaluated call precedes the helper call"
							}
						} else {
							visit(y.Y, true)
						}
						return false
					}
				case *ast.UnaryExpr:
					if y.Op == token.ARROW && y.End() <= s.call.Pos() {
						hoistBad = "a channel receive precedes the helper call"
					}
				case *ast.CallExpr:
					if y == s.call {
						return false
					}
					if y.End() <= s.call.Pos() {
						if tv, ok := p.TypesInfo.Types[y.Fun]; ok && tv.IsType() {
							return true // a conversion: look inside
						}
						if id, ok := y.Fun.(*ast.Ident); ok {
							if _, isB := p.TypesInfo.Uses[id].(*types.Builtin); isB && (id.Name == "len" || id.Name == "cap") && !hasCallOrRecv(y.Args[0]) {
								return false // pure
							}
						}
						t := p.TypesInfo.TypeOf(y)
						if t == nil {
							hoistBad = "untyped call before the helper call"
							return false
						}
						if _, isTuple := t.(*types.Tuple); isTuple {
							hoistBad = "a multi-value call precedes the helper call"
							return false
						}
						ts, more, ok := typeText(p, f, t)
						if !ok {
							hoistBad = "type of an earlier call not expressible"
							return false
						}
						imps = append(imps, more...)
						hoists = append(hoists, hoist{y, fmt.Sprintf("_ih%d_%d", n, len(hoists)), ts})
						return false
					}
				}
				return true
			})
		}
		visit(region, false)
	}
	if hoistBad != "" {
		return nil, nil, hoistBad
	}
	// the statement with the call (and hoisted calls) replaced
	rewrite := func(a, b token.Pos) string {
		type rp struct {
			a, b int
			t    string
		}
		rps := []rp{{off(s.call.Pos()), off(s.call.End()), resList}}
		for _, h := range hoists {
			rps = append(rps, rp{off(h.call.Pos()), off(h.call.End()), h.name})
		}
		sort.Slice(rps, func(i, j int) bool { return rps[i].a > rps[j].a })
		out := string(src[off(a):off(b)])
		base := off(a)
		for _, r := range rps {
			if r.a < base || r.b > off(b) {
				continue
			}
			out = out[:r.a-base] + r.t + out[r.b-base:]
		}
		return out
	}
	var sPrime string
	switch st := stmt.(type) {
	case *ast.ExprStmt:
		if dropStmt {
			if nres > 0 {
				sPrime = strings.Repeat("_, ", nres-1) + "_ = " + resList
			}
		} else {
			if nres != 1 {
				return nil, nil, "multi-value call as a sub-expression"
			}
			sPrime = rewrite(st.Pos(), st.End())
		}
	case *ast.IfStmt:
		if scCond != "" {
			sPrime = "if " + scCond + " " + text(st.Body.Pos(), st.End())
		} else if region == ast.Node(st.Cond) {
			if nres != 1 {
				return nil, nil, "multi-value call in a condition"
			}
			sPrime = "if " + rewrite(st.Cond.Pos(), st.End())
		} else {
			sPrime = rewrite(st.Pos(), st.End())
		}
	default:
		sPrime = rewrite(stmt.Pos(), stmt.End())
	}
	if !dropStmt && !tail {
		// a multi-value helper call must be the whole right-hand side / the whole return list
		if nres != 1 {
			okWhole := false
			switch st := stmt.(type) {
			case *ast.AssignStmt:
				okWhole = len(st.Rhs) == 1 && st.Rhs[0] == ast.Expr(s.call)
			case *ast.ReturnStmt:
				okWhole = len(st.Results) == 1 && st.Results[0] == ast.Expr(s.call)
			case *ast.IfStmt:
				if as, ok := st.Init.(*ast.AssignStmt); ok && region == ast.Node(st.Init) {
					okWhole = len(as.Rhs) == 1 && as.Rhs[0] == ast.Expr(s.call)
				}
			}
			if !okWhole {
				return nil, nil, "multi-value (or void) call as a sub-expression"
			}
		}
	}

	// name capture: names used by the helper that are declared outside it must mean the same at
	// the call site
	scope := p.Types.Scope().Innermost(s.call.Pos())
	captured := ""
	selIdents := map[*ast.Ident]bool{}
	ast.Inspect(callee.Body, func(nn ast.Node) bool {
		if se, ok := nn.(*ast.SelectorExpr); ok {
			selIdents[se.Sel] = true
		}
		return true
	})
	declStart := callee.Type.Pos()
	if callee.Recv != nil {
		declStart = callee.Recv.Pos()
	}
	if callee.Lit != nil {
		declStart = callee.Lit.Pos()
	}
	ast.Inspect(callee.Body, func(nn ast.Node) bool {
		id, ok := nn.(*ast.Ident)
		if !ok || selIdents[id] {
			return true
		}
		obj := p.TypesInfo.Uses[id]
		if obj == nil {
			return true
		}
		if pn, ok := obj.(*types.PkgName); ok {
			found := false
			for _, im := range f.Imports {
				path := strings.Trim(im.Path.Value, `"`)
				name := ""
				if im.Name != nil {
					name = im.Name.Name
				}
				if path == pn.Imported().Path() {
					if name == "" || name == pn.Name() {
						found = true
					} else {
						captured = "import alias differs for " + path
					}
				}
			}
			if !found && captured == "" {
				imps = append(imps, [2]string{pn.Name(), pn.Imported().Path()})
			}
			// the package name itself must not be shadowed at the call site
			if scope != nil {
				if _, o2 := scope.LookupParent(id.Name, s.call.Pos()); o2 != nil {
					if _, isPkg := o2.(*types.PkgName); !isPkg {
						captured = "package name " + id.Name + " is shadowed at the call site"
					}
				}
			}
			return true
		}
		inside := obj.Pos().IsValid() && declStart <= obj.Pos() && obj.Pos() <= callee.Body.End()
		if obj.Parent() != nil && !inside {
			if scope != nil {
				if _, o2 := scope.LookupParent(id.Name, s.call.Pos()); o2 != obj {
					captured = "name " + id.Name + " means something else at the call site"
				}
			}
		}
		return true
	})
	if captured != "" {
		return nil, nil, captured
	}

	var b strings.Builder
	b.WriteString("{\n")
	if preInit != "" {
		b.WriteString(preInit + "\n")
	}
	b.WriteString(scOpen)
	for _, h := range hoists {
		b.WriteString("var " + h.name + " " + h.typ + "\n" + h.name + " = " + text(h.call.Pos(), h.call.End()) + "\n")
	}
	// arguments
	type bind struct{ name, tmp string }
	var binds []bind
	renames := map[types.Object]string{} // parameters whose uses in the body are renamed
	k := 0
	if callee.Recv != nil && len(callee.Recv.List) == 1 {
		sel, ok := s.call.Fun.(*ast.SelectorExpr)
		if !ok {
			return nil, nil, "method called without selector"
		}
		if selInfo, ok := p.TypesInfo.Selections[sel]; ok && len(selInfo.Index()) != 1 {
			return nil, nil, "promoted method"
		}
		rt := text(sel.X.Pos(), sel.X.End())
		_, recvPtr := sig.Recv().Type().(*types.Pointer)
		_, argPtr := p.TypesInfo.TypeOf(sel.X).(*types.Pointer)
		switch {
		case recvPtr && !argPtr:
			rt = "&(" + rt + ")"
		case !recvPtr && argPtr:
			rt = "*(" + rt + ")"
		}
		// a receiver passed under its own name (`repo.helper()` inside another method of repo), never
		// reassigned by the helper and stable during the call: the body uses the caller's variable
		// directly (same rule as for parameters below), so closures handed to the helper that
		// capture it still mean the same variable where they are called
		sameRecv := false
		if names := callee.Recv.List[0].Names; len(names) == 1 && names[0].Name != "_" && recvPtr == argPtr {
			if id, isIdent := sel.X.(*ast.Ident); isIdent && id.Name == names[0].Name {
				if v, isVar := p.TypesInfo.Uses[id].(*types.Var); isVar && v.Parent() != p.Types.Scope() && !v.IsField() &&
					!assignsTo(p, callee.Body, p.TypesInfo.Defs[names[0]]) && stableDuringCall(p, f, s.call, v) {
					sameRecv = true
				}
			}
		}
		tmp := fmt.Sprintf("_ia%d_%d", n, k)
		k++
		if sameRecv {
			// nothing to bind
		} else {
			b.WriteString(tmp + " := " + rt + "\n")
		}
		if sameRecv {
		} else if names := callee.Recv.List[0].Names; len(names) == 1 && names[0].Name != "_" {
			binds = append(binds, bind{names[0].Name, tmp})
		} else {
			b.WriteString("_ = " + tmp + "\n")
		}
	}
	ai := 0
	for _, fld := range callee.Type.Params.List {
		names := fld.Names
		cnt := len(names)
		if cnt == 0 {
			cnt = 1
		}
		for j := 0; j < cnt; j++ {
			if ai >= len(s.call.Args) {
				return nil, nil, "argument count mismatch"
			}
			pt := sig.Params().At(ai).Type()
			// an argument passed under the parameter's own name (`helper(ctx, txChannel, finish)`
			// with parameters of those names — the usual result of "extract method"), never
			// reassigned by the helper, and naming a caller variable that cannot change while the
			// helper's body runs: the body uses the caller's variable directly. Local closures then
			// stay directly called (and are expanded in the next round) and no shadow copies hide
			// the variables they capture.
			if len(names) > 0 {
				if id, isIdent := s.call.Args[ai].(*ast.Ident); isIdent && id.Name == names[j].Name {
					if v, isVar := p.TypesInfo.Uses[id].(*types.Var); isVar && v.Parent() != p.Types.Scope() && !v.IsField() &&
						sameOrChanNarrowing(v.Type(), pt) &&
						!assignsTo(p, callee.Body, p.TypesInfo.Defs[names[j]]) && stableDuringCall(p, f, s.call, v) {
						ai++
						continue
					}
				}
			}
			// a function literal passed to a parameter that the helper only calls: defined under the
			// temporary's name before the expansion and called under that name in the body, so that
			// it is a directly called local closure (expanded in the next round)
			if lit, isLit := s.call.Args[ai].(*ast.FuncLit); isLit && len(names) > 0 && names[j].Name != "_" {
				pobj := p.TypesInfo.Defs[names[j]]
				if pobj != nil && !assignsTo(p, callee.Body, pobj) && onlyCalled(p, callee.Body, pobj) {
					tmp := fmt.Sprintf("_ia%d_%d", n, k)
					k++
					b.WriteString(tmp + " := " + text(lit.Pos(), lit.End()) + "\n")
					renames[pobj] = tmp
					ai++
					continue
				}
			}
			tmp := fmt.Sprintf("_ia%d_%d", n, k)
			k++
			ts, more, ok := typeText(p, f, pt)
			if !ok {
				return nil, nil, "parameter type not expressible at the call site"
			}
			imps = append(imps, more...)
			b.WriteString("var " + tmp + " " + ts + "\n" + tmp + " = " + text(s.call.Args[ai].Pos(), s.call.Args[ai].End()) + "\n")
			if len(names) > 0 && names[j].Name != "_" {
				binds = append(binds, bind{names[j].Name, tmp})
			} else {
				b.WriteString("_ = " + tmp + "\n")
			}
			ai++
		}
	}
	if tail && len(renames) > 0 {
		return nil, nil, "function literal argument in a tail call"
	}
	if tail {
		for _, bd := range binds {
			b.WriteString(bd.name + " := " + bd.tmp + "\n_ = " + bd.name + "\n")
		}
		tbody := ctext(callee.Body.Lbrace+1, callee.Body.Rbrace)
		tbase := off(callee.Body.Lbrace + 1)
		sort.Slice(labelIdents, func(i, j int) bool { return labelIdents[i].Pos() > labelIdents[j].Pos() })
		for _, li := range labelIdents {
			tbody = tbody[:off(li.Pos())-tbase] + fmt.Sprintf("%s_il%d", li.Name, n) + tbody[off(li.End())-tbase:]
		}
		b.WriteString(tbody)
		b.WriteString("\n}\n")
		return &edit{off(stmt.Pos()), off(stmt.End()), b.String()}, imps, ""
	}
	var resTypes []string
	for i := 0; i < nres; i++ {
		ts, more, ok := typeText(p, f, sig.Results().At(i).Type())
		if !ok {
			return nil, nil, "result type not expressible at the call site"
		}
		imps = append(imps, more...)
		resTypes = append(resTypes, ts)
		b.WriteString("var " + resNames[i] + " " + ts + "\n")
	}
	label := fmt.Sprintf("_il%d", n)
	needLabel := len(returns) > 0
	if needLabel {
		b.WriteString(label + ":\n")
	}
	b.WriteString("for {\n")
	for _, bd := range binds {
		b.WriteString(bd.name + " := " + bd.tmp + "\n_ = " + bd.name + "\n")
	}
	if namedResults {
		for i, nm := range resultNames {
			if nm == "_" {
				continue
			}
			b.WriteString("var " + nm + " " + resTypes[i] + "\n_ = " + nm + "\n")
		}
	}
	// deferred calls that run at a return placed after them, latest first
	deferredAt := func(pos token.Pos) string {
		var out []string
		for i := len(defers) - 1; i >= 0; i-- {
			if defers[i].Pos() < pos {
				out = append(out, ctext(defers[i].Call.Pos(), defers[i].Call.End()))
			}
		}
		if len(out) == 0 {
			return ""
		}
		return strings.Join(out, "; ") + "; "
	}
	// body with returns rewritten and defer statements removed (positions descending)
	body := ctext(callee.Body.Lbrace+1, callee.Body.Rbrace)
	base := off(callee.Body.Lbrace + 1)
	type rep struct {
		a, b int
		t    string
	}
	var reps []rep
	// text of an expression of the helper's body with the renamed parameters replaced
	rtext := func(e ast.Expr) string {
		t := ctext(e.Pos(), e.End())
		if len(renames) == 0 {
			return t
		}
		eb := off(e.Pos())
		var rr []rep
		ast.Inspect(e, func(nn ast.Node) bool {
			if id, ok := nn.(*ast.Ident); ok {
				if to, ok := renames[p.TypesInfo.Uses[id]]; ok {
					rr = append(rr, rep{off(id.Pos()) - eb, off(id.End()) - eb, to})
				}
			}
			return true
		})
		sort.Slice(rr, func(i, j int) bool { return rr[i].a > rr[j].a })
		for _, x := range rr {
			t = t[:x.a] + x.t + t[x.b:]
		}
		return t
	}
	for _, r := range returns {
		var repl string
		dtxt := deferredAt(r.Pos())
		switch {
		case len(r.Results) == 0 && nres == 0:
			repl = "{ " + dtxt + "break " + label + " }"
		case len(r.Results) == 0 && namedResults:
			var ns []string
			for _, nm := range resultNames {
				if nm == "_" {
					return nil, nil, "blank named result"
				}
				ns = append(ns, nm)
			}
			repl = "{ " + resList + " = " + strings.Join(ns, ", ") + "; " + dtxt + "break " + label + " }"
		case len(r.Results) == nres:
			var rs []string
			for _, e := range r.Results {
				rs = append(rs, rtext(e))
			}
			repl = "{ " + resList + " = " + strings.Join(rs, ", ") + "; " + dtxt + "break " + label + " }"
		case len(r.Results) == 1 && nres > 1:
			repl = "{ " + resList + " = " + rtext(r.Results[0]) + "; " + dtxt + "break " + label + " }"
		default:
			return nil, nil, "return arity"
		}
		reps = append(reps, rep{off(r.Pos()) - base, off(r.End()) - base, repl})
	}
	for _, d := range defers {
		reps = append(reps, rep{off(d.Pos()) - base, off(d.End()) - base, ""})
	}
	for _, li := range labelIdents {
		reps = append(reps, rep{off(li.Pos()) - base, off(li.End()) - base, fmt.Sprintf("%s_il%d", li.Name, n)})
	}
	if len(renames) > 0 {
		ast.Inspect(callee.Body, func(nn ast.Node) bool {
			if rs, ok := nn.(*ast.ReturnStmt); ok {
				for _, r := range returns {
					if r == rs {
						return false // replaced as a whole above (rtext)
					}
				}
			}
			if id, ok := nn.(*ast.Ident); ok {
				if to, ok := renames[p.TypesInfo.Uses[id]]; ok {
					reps = append(reps, rep{off(id.Pos()) - base, off(id.End()) - base, to})
				}
			}
			return true
		})
	}
	sort.Slice(reps, func(i, j int) bool { return reps[i].a > reps[j].a })
	for _, r := range reps {
		body = body[:r.a] + r.t + body[r.b:]
	}
	b.WriteString(body)
	b.WriteString("\n")
	if nres == 0 {
		if d := deferredAt(callee.Body.Rbrace); d != "" {
			b.WriteString(strings.TrimSuffix(d, "; ") + "\n")
		}
	}
	b.WriteString("break\n}\n")
	b.WriteString(scAssign)
	b.WriteString(sPrime + "\n}\n")
	// a define statement's variables must stay visible after the expansion: no outer braces
	if as, ok := stmt.(*ast.AssignStmt); ok && as.Tok == token.DEFINE {
		t := b.String()
		t = strings.TrimPrefix(t, "{\n")
		t = strings.TrimSuffix(t, "}\n")
		return &edit{off(stmt.Pos()), off(stmt.End()), t}, imps, ""
	}
	return &edit{off(stmt.Pos()), off(stmt.End()), b.String()}, imps, ""
}

// typeText renders t as it can be written in file f, adding imports when needed.
func typeText(p *packages.Package, f *ast.File, t types.Type) (string, [][2]string, bool) {
	var imps [][2]string
	ok := true
	s := types.TypeString(t, func(pk *types.Package) string {
		if pk == p.Types {
			return ""
		}
		for _, im := range f.Imports {
			if strings.Trim(im.Path.Value, `"`) == pk.Path() {
				if im.Name != nil {
					if im.Name.Name == "." || im.Name.Name == "_" {
						ok = false
					}
					return im.Name.Name
				}
				return pk.Name()
			}
		}
		imps = append(imps, [2]string{pk.Name(), pk.Path()})
		return pk.Name()
	})
	return s, imps, ok
}

// substExpr renders the helper's single return expression with its parameters replaced by the
// (simple) argument texts.
func substExpr(p *packages.Package, f *ast.File, src, csrc []byte, s inlineSite, e ast.Expr) (string, [][2]string, bool) {
	fset := p.Fset
	off := func(pos token.Pos) int { return fset.Position(pos).Offset }
	argText := map[types.Object]string{}
	sig := s.callee.Sig
	if s.callee.Recv != nil && len(s.callee.Recv.List) == 1 {
		sel, ok := s.call.Fun.(*ast.SelectorExpr)
		if !ok {
			return "", nil, false
		}
		if names := s.callee.Recv.List[0].Names; len(names) == 1 {
			rt := string(src[off(sel.X.Pos()):off(sel.X.End())])
			_, recvPtr := sig.Recv().Type().(*types.Pointer)
			_, argPtr := p.TypesInfo.TypeOf(sel.X).(*types.Pointer)
			if recvPtr != argPtr {
				return "", nil, false
			}
			argText[p.TypesInfo.Defs[names[0]]] = "(" + rt + ")"
		}
	}
	ai := 0
	for _, fld := range s.callee.Type.Params.List {
		cnt := len(fld.Names)
		if cnt == 0 {
			cnt = 1
		}
		for j := 0; j < cnt; j++ {
			if ai >= len(s.call.Args) {
				return "", nil, false
			}
			if len(fld.Names) > 0 {
				argText[p.TypesInfo.Defs[fld.Names[j]]] = "(" + string(src[off(s.call.Args[ai].Pos()):off(s.call.Args[ai].End())]) + ")"
			}
			ai++
		}
	}
	var imps [][2]string
	type rep struct {
		a, b int
		t    string
	}
	var reps []rep
	okAll := true
	scope := p.Types.Scope().Innermost(s.call.Pos())
	ast.Inspect(e, func(nn ast.Node) bool {
		if _, isLit := nn.(*ast.FuncLit); isLit {
			okAll = false
			return false
		}
		id, ok := nn.(*ast.Ident)
		if !ok {
			return true
		}
		obj := p.TypesInfo.Uses[id]
		if obj == nil {
			return true
		}
		if t, ok := argText[obj]; ok {
			reps = append(reps, rep{off(id.Pos()), off(id.End()), t})
			return true
		}
		if pn, ok := obj.(*types.PkgName); ok {
			found := false
			for _, im := range f.Imports {
				if strings.Trim(im.Path.Value, `"`) == pn.Imported().Path() && (im.Name == nil || im.Name.Name == pn.Name()) {
					found = true
				}
			}
			if !found {
				imps = append(imps, [2]string{pn.Name(), pn.Imported().Path()})
			}
			return true
		}
		if obj.Parent() == p.Types.Scope() || obj.Parent() == types.Universe {
			if scope != nil {
				if _, o2 := scope.LookupParent(id.Name, s.call.Pos()); o2 != nil && o2 != obj {
					okAll = false
				}
			}
		} else if _, isVar := obj.(*types.Var); isVar && !obj.(*types.Var).IsField() {
			// a local of the helper: not a pure expression — unless the "helper" is a local closure
			// and the variable is one it captures, still meaning the same thing where it is called
			captured := false
			if s.callee.Lit != nil && scope != nil && !(s.callee.Lit.Pos() <= obj.Pos() && obj.Pos() <= s.callee.Lit.End()) {
				if _, o2 := scope.LookupParent(id.Name, s.call.Pos()); o2 == obj {
					captured = true
				}
			}
			if !captured {
				okAll = false
			}
		}
		return true
	})
	if !okAll {
		return "", nil, false
	}
	base := off(e.Pos())
	out := string(csrc[off(e.Pos()):off(e.End())])
	sort.Slice(reps, func(i, j int) bool { return reps[i].a > reps[j].a })
	for _, r := range reps {
		out = out[:r.a-base] + r.t + out[r.b-base:]
	}
	return out, imps, true
}

// NormaliseSwitches rewrites every tagless `switch { case c: … }` of the given packages into the
// equivalent if / else-if chain (line-preserving). go/ssa lowers a case condition `a && b` of a
// tagless switch to a boolean phi instead of branches, which hides the individual tests from the
// guard rules; the if-chain form is lowered to branches. Switches with fallthrough, with a break
// that targets the switch, or with a default clause that is not last are left alone.
func NormaliseSwitches(pkgs []*packages.Package, read func(string) ([]byte, error)) (map[string][]byte, []string) {
	overlay := map[string][]byte{}
	var notes []string
	for _, p := range pkgs {
		for _, f := range p.Syntax {
			fname := p.Fset.Position(f.Pos()).Filename
			var src []byte
			var edits []edit
			off := func(pos token.Pos) int { return p.Fset.Position(pos).Offset }
			ast.Inspect(f, func(n ast.Node) bool {
				sw, ok := n.(*ast.SwitchStmt)
				if !ok || sw.Tag != nil || len(sw.Body.List) == 0 {
					return true
				}
				okSw := true
				for i, c := range sw.Body.List {
					cc := c.(*ast.CaseClause)
					if cc.List == nil && i != len(sw.Body.List)-1 {
						okSw = false
					}
					for _, st := range cc.Body {
						if breaksOut(st) {
							okSw = false
						}
					}
				}
				if !okSw {
					return true
				}
				if src == nil {
					b, err := read(fname)
					if err != nil {
						return false
					}
					src = b
				}
				// header: from "switch" to the opening brace disappears (or keeps the init in a block);
				// the first clause opens the chain, so that a switch in which every clause returns
				// stays a terminating statement
				head := ""
				if sw.Init != nil {
					head = "{ " + string(src[off(sw.Init.Pos()):off(sw.Init.End())]) + ";"
				}
				edits = append(edits, edit{off(sw.Pos()), off(sw.Body.Lbrace) + 1, head})
				for i, c := range sw.Body.List {
					cc := c.(*ast.CaseClause)
					var t string
					if cc.List == nil {
						t = "} else {"
						if i == 0 {
							t = "{"
						}
					} else {
						var cs []string
						for _, e := range cc.List {
							cs = append(cs, "("+string(src[off(e.Pos()):off(e.End())])+")")
						}
						t = "} else if " + strings.Join(cs, " || ") + " {"
						if i == 0 {
							t = "if " + strings.Join(cs, " || ") + " {"
						}
					}
					edits = append(edits, edit{off(cc.Pos()), off(cc.Colon) + 1, t})
				}
				tail := "}"
				if sw.Init != nil {
					tail = "}}"
				}
				edits = append(edits, edit{off(sw.Body.Rbrace), off(sw.Body.Rbrace) + 1, tail})
				notes = append(notes, "tagless switch at "+shortPos(p.Fset.Position(sw.Pos()))+" analysed as an if / else-if chain")
				return true
			})
			if len(edits) == 0 {
				continue
			}
			sort.Slice(edits, func(i, j int) bool { return edits[i].start > edits[j].start })
			out := append([]byte{}, src...)
			for _, e := range edits {
				out = append(out[:e.start], append([]byte(e.text), out[e.end:]...)...)
			}
			overlay[fname] = out
		}
	}
	return overlay, notes
}

// breaksOut: st contains a break (unlabelled, not inside a nested for/switch/select) or a
// fallthrough.
func breaksOut(st ast.Stmt) bool {
	found := false
	var visit func(n ast.Node, depth int)
	visit = func(n ast.Node, depth int) {
		ast.Inspect(n, func(x ast.Node) bool {
			if x == nil || found {
				return false
			}
			switch y := x.(type) {
			case *ast.BranchStmt:
				if y.Tok == token.FALLTHROUGH {
					found = true
				}
				if y.Tok == token.BREAK && y.Label == nil {
					found = true
				}
			case *ast.ForStmt, *ast.RangeStmt, *ast.SwitchStmt, *ast.TypeSwitchStmt, *ast.SelectStmt:
				if x != n {
					// a break inside belongs to the nested statement; a fallthrough cannot occur there
					// for the outer switch
					return false
				}
			case *ast.FuncLit:
				return false
			}
			return true
		})
	}
	visit(st, 0)
	return found
}

// assignsTo: body assigns to obj or takes its address.
func assignsTo(p *packages.Package, body *ast.BlockStmt, obj types.Object) bool {
	if obj == nil {
		return true
	}
	found := false
	ast.Inspect(body, func(n ast.Node) bool {
		switch x := n.(type) {
		case *ast.AssignStmt:
			for _, l := range x.Lhs {
				if id, ok := l.(*ast.Ident); ok && (p.TypesInfo.Uses[id] == obj || p.TypesInfo.Defs[id] == obj) {
					found = true
				}
			}
		case *ast.IncDecStmt:
			if id, ok := x.X.(*ast.Ident); ok && p.TypesInfo.Uses[id] == obj {
				found = true
			}
		case *ast.UnaryExpr:
			if x.Op == token.AND {
				if id, ok := x.X.(*ast.Ident); ok && p.TypesInfo.Uses[id] == obj {
					found = true
				}
			}
		}
		return true
	})
	return found
}

func sameOrChanNarrowing(arg, prm types.Type) bool {
	if types.Identical(arg, prm) {
		return true
	}
	ac, ok1 := arg.Underlying().(*types.Chan)
	pc, ok2 := prm.Underlying().(*types.Chan)
	return ok1 && ok2 && types.Identical(ac.Elem(), pc.Elem()) && ac.Dir() == types.SendRecv
}

// stableDuringCall: the caller's variable v cannot change while a callee runs: its address is never
// taken and no function literal of the enclosing function assigns to it.
func stableDuringCall(p *packages.Package, f *ast.File, call *ast.CallExpr, v *types.Var) bool {
	encl := enclosingFunc(f, call.Pos())
	if encl == nil {
		return false
	}
	ok := true
	ast.Inspect(encl.Body, func(n ast.Node) bool {
		switch x := n.(type) {
		case *ast.UnaryExpr:
			if x.Op == token.AND {
				if id, isId := x.X.(*ast.Ident); isId && p.TypesInfo.Uses[id] == types.Object(v) {
					ok = false
				}
			}
		case *ast.FuncLit:
			if assignsTo(p, x.Body, v) {
				ok = false
			}
		}
		return true
	})
	return ok
}

// hasCallOrRecvExcept: e contains a call or receive other than `except` (and what is inside it).
func hasCallOrRecvExcept(e ast.Expr, except *ast.CallExpr) bool {
	found := false
	ast.Inspect(e, func(n ast.Node) bool {
		if n == ast.Node(except) {
			return false
		}
		switch x := n.(type) {
		case *ast.CallExpr:
			found = true
		case *ast.UnaryExpr:
			if x.Op == token.ARROW {
				found = true
			}
		case *ast.FuncLit:
			return false
		}
		return true
	})
	return found
}

// underShortCircuit: inside e, call sits in the right operand of a && or ||.
func underShortCircuit(e ast.Expr, call *ast.CallExpr) bool {
	res := false
	ast.Inspect(e, func(n ast.Node) bool {
		if be, ok := n.(*ast.BinaryExpr); ok && (be.Op == token.LAND || be.Op == token.LOR) {
			if be.Y.Pos() <= call.Pos() && call.End() <= be.Y.End() {
				res = true
			}
		}
		return true
	})
	return res
}

// onlyCalled: every use of obj in body is the function position of a plain call.
func onlyCalled(p *packages.Package, body *ast.BlockStmt, obj types.Object) bool {
	callFun := map[*ast.Ident]bool{}
	bad := false
	ast.Inspect(body, func(n ast.Node) bool {
		switch x := n.(type) {
		case *ast.CallExpr:
			if id, ok := x.Fun.(*ast.Ident); ok {
				callFun[id] = true
			}
		case *ast.GoStmt:
			if id, ok := x.Call.Fun.(*ast.Ident); ok && p.TypesInfo.Uses[id] == obj {
				bad = true
			}
		case *ast.DeferStmt:
			if id, ok := x.Call.Fun.(*ast.Ident); ok && p.TypesInfo.Uses[id] == obj {
				bad = true
			}
		}
		return true
	})
	ast.Inspect(body, func(n ast.Node) bool {
		if id, ok := n.(*ast.Ident); ok && p.TypesInfo.Uses[id] == obj && !callFun[id] {
			bad = true
		}
		return true
	})
	return !bad
}

// UnrollConstRanges rewrites `for _, v := range <array/slice literal of ≤ 4 constant elements>
// { body }` into one copy of the body per element, with `v` (or `v[k]` for a nested literal)
// replaced by the element's text. A table-driven loop hides a fixed sequence of steps (the
// compare-exchange network of the median, a list of fields to write) behind an index; the unrolled
// form is the sequence itself. Loops whose body breaks, continues, uses labels, defers, assigns the
// loop variable or uses it other than by value are left alone. A `//line` directive after the
// unrolled statement keeps the line numbers of the rest of the file.
func UnrollConstRanges(pkgs []*packages.Package, read func(string) ([]byte, error)) (map[string][]byte, []string) {
	overlay := map[string][]byte{}
	var notes []string
	for _, p := range pkgs {
		for _, f := range p.Syntax {
			fname := p.Fset.Position(f.Pos()).Filename
			if strings.HasSuffix(fname, "_test.go") {
				continue
			}
			var src []byte
			var edits []edit
			off := func(pos token.Pos) int { return p.Fset.Position(pos).Offset }
			ast.Inspect(f, func(n ast.Node) bool {
				rs, ok := n.(*ast.RangeStmt)
				if !ok || rs.Tok != token.DEFINE || rs.Value == nil {
					return true
				}
				if k, isID := rs.Key.(*ast.Ident); rs.Key != nil && (!isID || k.Name != "_") {
					return true
				}
				vid, ok := rs.Value.(*ast.Ident)
				if !ok || vid.Name == "_" {
					return true
				}
				lit, ok := rs.X.(*ast.CompositeLit)
				var tableDef *ast.AssignStmt
				if tid, isID := rs.X.(*ast.Ident); !ok && isID {
					// a local defined once by a literal (`header := []interface{}{version, count}`)
					// and used by this loop only
					tobj := p.TypesInfo.Uses[tid]
					if fd := enclosingFunc(f, rs.Pos()); tobj != nil && fd != nil {
						nUse := 0
						ast.Inspect(fd.Body, func(y ast.Node) bool {
							switch z := y.(type) {
							case *ast.AssignStmt:
								if len(z.Lhs) == 1 && len(z.Rhs) == 1 && z.Tok == token.DEFINE {
									if id, ok := z.Lhs[0].(*ast.Ident); ok && p.TypesInfo.Defs[id] == tobj {
										if cl, ok := z.Rhs[0].(*ast.CompositeLit); ok {
											lit, tableDef = cl, z
										}
									}
								}
							case *ast.Ident:
								if p.TypesInfo.Uses[z] == tobj {
									nUse++
								}
							}
							return true
						})
						if nUse != 1 || tableDef == nil {
							return true
						}
						ok = true
					}
				}
				if !ok || lit == nil || len(lit.Elts) == 0 || len(lit.Elts) > 4 {
					return true
				}
				pureEntries := false
				var isPure func(e ast.Expr) bool
				isPure = func(e ast.Expr) bool {
					if tv, ok := p.TypesInfo.Types[e]; ok && tv.Value != nil {
						return true
					}
					switch x := e.(type) {
					case *ast.Ident:
						_, isVar := p.TypesInfo.Uses[x].(*types.Var)
						return isVar
					case *ast.SelectorExpr:
						if sel, ok := p.TypesInfo.Selections[x]; ok && sel.Kind() == types.FieldVal {
							return isPure(x.X)
						}
					case *ast.ParenExpr:
						return isPure(x.X)
					case *ast.BinaryExpr:
						return x.Op != token.LAND && x.Op != token.LOR && isPure(x.X) && isPure(x.Y)
					case *ast.CallExpr:
						if len(x.Args) != 1 {
							return false
						}
						if tv, ok := p.TypesInfo.Types[x.Fun]; ok && tv.IsType() {
							return isPure(x.Args[0])
						}
						if id, ok := x.Fun.(*ast.Ident); ok {
							if _, isB := p.TypesInfo.Uses[id].(*types.Builtin); isB && (id.Name == "len" || id.Name == "cap") {
								return isPure(x.Args[0])
							}
						}
					}
					return false
				}
				isConst := func(e ast.Expr) bool {
					tv, ok := p.TypesInfo.Types[e]
					if ok && tv.Value != nil {
						return true
					}
					// a pure expression over variables the loop does not change
					if _, isLit := e.(*ast.CompositeLit); !isLit && isPure(e) {
						pureEntries = true
						return true
					}
					return false
				}
				nested := false
				for _, e := range lit.Elts {
					switch x := e.(type) {
					case *ast.CompositeLit:
						nested = true
						for _, ie := range x.Elts {
							if !isConst(ie) {
								return true
							}
						}
					case *ast.KeyValueExpr:
						return true
					default:
						if !isConst(e) {
							return true
						}
					}
				}
				obj := p.TypesInfo.Defs[vid]
				if obj == nil || assignsTo(p, rs.Body, obj) {
					return true
				}
				elemConv := ""
				if pureEntries {
					if nested {
						return true
					}
					// the variables the entries read must not be written or redeclared by the body
					stable := true
					for _, e := range lit.Elts {
						ast.Inspect(e, func(x ast.Node) bool {
							if id, ok := x.(*ast.Ident); ok {
								if v, isVar := p.TypesInfo.Uses[id].(*types.Var); isVar {
									if assignsTo(p, rs.Body, v) {
										stable = false
									}
									ast.Inspect(rs.Body, func(y ast.Node) bool {
										if d, ok := y.(*ast.Ident); ok && p.TypesInfo.Defs[d] != nil && d.Name == id.Name {
											stable = false
										}
										if ue, ok := y.(*ast.UnaryExpr); ok && ue.Op == token.AND {
											if aid, ok := ue.X.(*ast.Ident); ok && p.TypesInfo.Uses[aid] == types.Object(v) {
												stable = false
											}
										}
										return stable
									})
								}
							}
							return stable
						})
					}
					if !stable {
						return true
					}
					// each use keeps the element type of the table
					ts, more, okT := typeText(p, f, obj.Type())
					if !okT || len(more) > 0 {
						return true
					}
					elemConv = ts
				}
				// body restrictions
				okBody := true
				ast.Inspect(rs.Body, func(x ast.Node) bool {
					switch y := x.(type) {
					case *ast.BranchStmt:
						if y.Tok == token.CONTINUE || y.Tok == token.GOTO || y.Label != nil {
							okBody = false
						}
					case *ast.LabeledStmt, *ast.DeferStmt, *ast.FuncLit, *ast.GoStmt:
						okBody = false
					}
					return okBody
				})
				for _, st := range rs.Body.List {
					if breaksOut(st) {
						okBody = false
					}
				}
				// declarations in the body would collide between copies only if the copies shared a
				// scope; each copy gets its own block
				if !okBody {
					return true
				}
				// uses of v: `v` for scalar elements, `v[const]` for nested ones
				type use struct {
					start, end int
					idx        int // -1: whole value
				}
				var uses []use
				bad := false
				var walk func(x ast.Node) bool
				walk = func(x ast.Node) bool {
					if bad {
						return false
					}
					switch y := x.(type) {
					case *ast.IndexExpr:
						if id, ok := y.X.(*ast.Ident); ok && p.TypesInfo.Uses[id] == obj {
							tv, ok := p.TypesInfo.Types[y.Index]
							if !ok || tv.Value == nil || !nested {
								bad = true
								return false
							}
							k, exact := constantInt(tv)
							if !exact {
								bad = true
								return false
							}
							uses = append(uses, use{off(y.Pos()), off(y.End()), k})
							return false
						}
					case *ast.Ident:
						if p.TypesInfo.Uses[y] == obj {
							if nested {
								bad = true
								return false
							}
							uses = append(uses, use{off(y.Pos()), off(y.End()), -1})
						}
					}
					return true
				}
				ast.Inspect(rs.Body, walk)
				if bad {
					return true
				}
				if src == nil {
					b, err := read(fname)
					if err != nil {
						return false
					}
					src = b
				}
				bodyStart, bodyEnd := off(rs.Body.Lbrace), off(rs.Body.Rbrace)+1
				sort.Slice(uses, func(i, j int) bool { return uses[i].start < uses[j].start })
				var sb strings.Builder
				sb.WriteString("{\n")
				for _, e := range lit.Elts {
					pos := bodyStart
					for _, u := range uses {
						sb.Write(src[pos:u.start])
						var repl string
						if u.idx < 0 {
							repl = "(" + string(src[off(e.Pos()):off(e.End())]) + ")"
							if elemConv != "" {
								repl = "(" + elemConv + ")" + repl
							}
						} else {
							in := e.(*ast.CompositeLit)
							if u.idx >= len(in.Elts) {
								return true
							}
							ie := in.Elts[u.idx]
							repl = "(" + string(src[off(ie.Pos()):off(ie.End())]) + ")"
						}
						sb.WriteString(repl)
						pos = u.end
					}
					sb.Write(src[pos:bodyEnd])
					sb.WriteString("\n")
				}
				endLine := p.Fset.Position(rs.End()).Line
				sb.WriteString(fmt.Sprintf("}\n//line %s:%d\n", fname, endLine))
				edits = append(edits, edit{off(rs.Pos()), off(rs.End()), sb.String()})
				if tableDef != nil {
					nl := strings.Count(string(src[off(tableDef.Pos()):off(tableDef.End())]), "\n")
					edits = append(edits, edit{off(tableDef.Pos()), off(tableDef.End()), strings.Repeat("\n", nl)})
				}
				notes = append(notes, fmt.Sprintf("loop over a constant table of %d entries at %s analysed unrolled", len(lit.Elts), shortPos(p.Fset.Position(rs.Pos()))))
				return false
			})
			if len(edits) == 0 {
				continue
			}
			sort.Slice(edits, func(i, j int) bool { return edits[i].start > edits[j].start })
			out := append([]byte{}, src...)
			for _, e := range edits {
				out = append(out[:e.start], append([]byte(e.text), out[e.end:]...)...)
			}
			overlay[fname] = out
		}
	}
	return overlay, notes
}

func constantInt(tv types.TypeAndValue) (int, bool) {
	if tv.Value == nil {
		return 0, false
	}
	v, ok := constant.Int64Val(constant.ToInt(tv.Value))
	return int(v), ok
}

// UnrollStepTables rewrites a loop over a small local table of structs whose fields are pure
// expressions (strings, function literals, method values) — `for _, step := range steps { if err :=
// step.run(); err != nil { return errors.Wrap(err, step.name) } }` — into one copy of the body per
// entry, with `step.field` replaced by the entry's expression; a call of a parameterless function
// literal whose body is a single return is replaced by the returned expression. The steps of a
// sequence (consolidate → save → prune → …) then appear as the static calls they are.
func UnrollStepTables(pkgs []*packages.Package, read func(string) ([]byte, error)) (map[string][]byte, []string) {
	overlay := map[string][]byte{}
	var notes []string
	for _, p := range pkgs {
		info := p.TypesInfo
		for _, f := range p.Syntax {
			fname := p.Fset.Position(f.Pos()).Filename
			if strings.HasSuffix(fname, "_test.go") {
				continue
			}
			var src []byte
			var edits []edit
			off := func(pos token.Pos) int { return p.Fset.Position(pos).Offset }
			for _, d := range f.Decls {
				fd, ok := d.(*ast.FuncDecl)
				if !ok || fd.Body == nil {
					continue
				}
				parents := map[ast.Node]ast.Node{}
				var stack []ast.Node
				ast.Inspect(fd.Body, func(n ast.Node) bool {
					if n == nil {
						stack = stack[:len(stack)-1]
						return true
					}
					if len(stack) > 0 {
						parents[n] = stack[len(stack)-1]
					}
					stack = append(stack, n)
					return true
				})
				ast.Inspect(fd.Body, func(n ast.Node) bool {
					rs, ok := n.(*ast.RangeStmt)
					if !ok || rs.Tok != token.DEFINE || rs.Value == nil {
						return true
					}
					if k, isID := rs.Key.(*ast.Ident); rs.Key != nil && (!isID || k.Name != "_") {
						return true
					}
					vid, ok := rs.Value.(*ast.Ident)
					if !ok || vid.Name == "_" {
						return true
					}
					vobj := info.Defs[vid]
					if vobj == nil || assignsTo(p, rs.Body, vobj) {
						return true
					}
					// the table: a literal, or a local defined once by a literal and never touched
					var lit *ast.CompositeLit
					var tableID *ast.Ident
					var tableDef *ast.AssignStmt // `table := literal` with nothing else on either side
					switch x := rs.X.(type) {
					case *ast.CompositeLit:
						lit = x
					case *ast.Ident:
						tobj := info.Uses[x]
						if tobj == nil {
							return true
						}
						tableID = x
						nDef := 0
						touched := false
						ast.Inspect(fd.Body, func(y ast.Node) bool {
							switch z := y.(type) {
							case *ast.AssignStmt:
								for i, l := range z.Lhs {
									if id, ok := l.(*ast.Ident); ok && (info.Defs[id] == tobj || info.Uses[id] == tobj) {
										nDef++
										if len(z.Lhs) == len(z.Rhs) {
											if cl, ok := z.Rhs[i].(*ast.CompositeLit); ok && z.Tok == token.DEFINE {
												lit = cl
												if len(z.Lhs) == 1 {
													tableDef = z
												}
											}
										}
									}
									if ix, ok := l.(*ast.IndexExpr); ok {
										if id, ok := ix.X.(*ast.Ident); ok && info.Uses[id] == tobj {
											touched = true
										}
									}
								}
							case *ast.UnaryExpr:
								if id, ok := z.X.(*ast.Ident); ok && z.Op == token.AND && info.Uses[id] == tobj {
									touched = true
								}
							case *ast.Ident:
								// any other use than this range and the definition
								if info.Uses[z] == tobj && z != x {
									touched = true
								}
							}
							return true
						})
						if nDef != 1 || touched || lit == nil {
							return true
						}
					default:
						return true
					}
					if len(lit.Elts) == 0 || len(lit.Elts) > 6 {
						return true
					}
					ltv, ok := info.Types[lit]
					if !ok {
						return true
					}
					var elemT types.Type
					switch t := ltv.Type.Underlying().(type) {
					case *types.Array:
						elemT = t.Elem()
					case *types.Slice:
						elemT = t.Elem()
					default:
						return true
					}
					st, ok := elemT.Underlying().(*types.Struct)
					if !ok {
						return true
					}
					var isPure func(e ast.Expr) bool
					isPure = func(e ast.Expr) bool {
						switch x := e.(type) {
						case *ast.BasicLit, *ast.FuncLit:
							return true
						case *ast.Ident:
							return true
						case *ast.SelectorExpr:
							return isPure(x.X)
						case *ast.ParenExpr:
							return isPure(x.X)
						case *ast.UnaryExpr:
							return x.Op != token.ARROW && isPure(x.X)
						case *ast.BinaryExpr:
							return isPure(x.X) && isPure(x.Y)
						}
						if tv, ok := info.Types[e]; ok && tv.Value != nil {
							return true
						}
						return false
					}
					// per entry: field name → expression
					var entries []map[string]ast.Expr
					for _, e := range lit.Elts {
						cl, ok := e.(*ast.CompositeLit)
						if !ok {
							return true
						}
						m := map[string]ast.Expr{}
						for i, fe := range cl.Elts {
							if kv, ok := fe.(*ast.KeyValueExpr); ok {
								k, ok := kv.Key.(*ast.Ident)
								if !ok || !isPure(kv.Value) {
									return true
								}
								m[k.Name] = kv.Value
								continue
							}
							if i >= st.NumFields() || !isPure(fe) {
								return true
							}
							m[st.Field(i).Name()] = fe
						}
						entries = append(entries, m)
					}
					// body restrictions
					okBody := true
					declared := map[string]bool{vid.Name: true}
					ast.Inspect(rs.Body, func(x ast.Node) bool {
						switch y := x.(type) {
						case *ast.BranchStmt:
							if y.Tok == token.CONTINUE || y.Tok == token.GOTO || y.Label != nil {
								okBody = false
							}
						case *ast.LabeledStmt, *ast.DeferStmt, *ast.GoStmt, *ast.FuncLit:
							okBody = false
						case *ast.Ident:
							if info.Defs[y] != nil {
								declared[y.Name] = true
							}
						}
						return okBody
					})
					for _, stt := range rs.Body.List {
						if breaksOut(stt) {
							okBody = false
						}
					}
					if !okBody {
						return true
					}
					// names the entry expressions use must not be redeclared inside the loop
					for _, m := range entries {
						for _, e := range m {
							ast.Inspect(e, func(x ast.Node) bool {
								if id, ok := x.(*ast.Ident); ok && info.Uses[id] != nil && declared[id.Name] {
									if _, isVar := info.Uses[id].(*types.Var); isVar {
										okBody = false
									}
								}
								return okBody
							})
						}
					}
					if !okBody {
						return true
					}
					// uses of v
					type use struct {
						start, end int
						field      string
						call       bool
					}
					var uses []use
					bad := false
					ast.Inspect(rs.Body, func(x ast.Node) bool {
						if bad {
							return false
						}
						switch y := x.(type) {
						case *ast.SelectorExpr:
							if id, ok := y.X.(*ast.Ident); ok && info.Uses[id] == vobj {
								sel, isSel := info.Selections[y]
								if !isSel || sel.Kind() != types.FieldVal || len(sel.Index()) != 1 {
									bad = true
									return false
								}
								u := use{off(y.Pos()), off(y.End()), y.Sel.Name, false}
								if ce, ok := parents[y].(*ast.CallExpr); ok && ce.Fun == ast.Expr(y) && len(ce.Args) == 0 {
									u = use{off(ce.Pos()), off(ce.End()), y.Sel.Name, true}
								}
								uses = append(uses, u)
								return false
							}
						case *ast.Ident:
							if info.Uses[y] == vobj {
								bad = true
							}
						}
						return true
					})
					if bad {
						return true
					}
					if src == nil {
						b, err := read(fname)
						if err != nil {
							return false
						}
						src = b
					}
					text := func(e ast.Expr) string { return string(src[off(e.Pos()):off(e.End())]) }
					bodyStart, bodyEnd := off(rs.Body.Lbrace), off(rs.Body.Rbrace)+1
					sort.Slice(uses, func(i, j int) bool { return uses[i].start < uses[j].start })
					var sb strings.Builder
					sb.WriteString("{\n")
					if tableID != nil && tableDef == nil {
						sb.WriteString("_ = " + tableID.Name + "\n")
					}
					for _, m := range entries {
						pos := bodyStart
						for _, u := range uses {
							e, ok := m[u.field]
							if !ok {
								return true // field left at its zero value: not handled
							}
							sb.Write(src[pos:u.start])
							repl := ""
							if u.call {
								fl, isFL := e.(*ast.FuncLit)
								if isFL && fl.Type.Params.NumFields() == 0 && len(fl.Body.List) == 1 {
									switch s := fl.Body.List[0].(type) {
									case *ast.ReturnStmt:
										if len(s.Results) == 1 {
											repl = "(" + text(s.Results[0]) + ")"
										}
									}
								}
								if repl == "" {
									repl = "(" + text(e) + ")()"
								}
							} else {
								repl = "(" + text(e) + ")"
							}
							sb.WriteString(repl)
							pos = u.end
						}
						sb.Write(src[pos:bodyEnd])
						sb.WriteString("\n")
					}
					endLine := p.Fset.Position(rs.End()).Line
					sb.WriteString(fmt.Sprintf("}\n//line %s:%d\n", fname, endLine))
					edits = append(edits, edit{off(rs.Pos()), off(rs.End()), sb.String()})
					if tableID != nil && tableDef != nil {
						// the table itself is dropped (its entries are pure; its closures would
						// otherwise stay behind as functions that nothing calls): blank lines keep
						// the positions of what follows
						nl := strings.Count(string(src[off(tableDef.Pos()):off(tableDef.End())]), "\n")
						edits = append(edits, edit{off(tableDef.Pos()), off(tableDef.End()), strings.Repeat("\n", nl)})
					}
					notes = append(notes, fmt.Sprintf("loop over a table of %d steps at %s analysed unrolled", len(entries), shortPos(p.Fset.Position(rs.Pos()))))
					return false
				})
			}
			if len(edits) == 0 {
				continue
			}
			sort.Slice(edits, func(i, j int) bool { return edits[i].start > edits[j].start })
			out := append([]byte{}, src...)
			for _, e := range edits {
				out = append(out[:e.start], append([]byte(e.text), out[e.end:]...)...)
			}
			overlay[fname] = out
		}
	}
	return overlay, notes
}

// InlineCondLocals rewrites
//
//	v := <boolean expression>
//	if v { … }            (or `if !v`)
//
// into `if <expression> { … }` when v is defined by that statement, is used nowhere else and the if
// follows immediately (no init statement): the rules look for the tests that guard an action, and a
// test parked in a one-use local is the same test.
func InlineCondLocals(pkgs []*packages.Package, read func(string) ([]byte, error)) (map[string][]byte, []string) {
	overlay := map[string][]byte{}
	var notes []string
	for _, p := range pkgs {
		info := p.TypesInfo
		for _, f := range p.Syntax {
			fname := p.Fset.Position(f.Pos()).Filename
			if strings.HasSuffix(fname, "_test.go") {
				continue
			}
			var src []byte
			var edits []edit
			off := func(pos token.Pos) int { return p.Fset.Position(pos).Offset }
			uses := map[types.Object]int{}
			ast.Inspect(f, func(n ast.Node) bool {
				if id, ok := n.(*ast.Ident); ok {
					if o := info.Uses[id]; o != nil {
						uses[o]++
					}
				}
				return true
			})
			visit := func(list []ast.Stmt) {
				for i := 0; i+1 < len(list); i++ {
					as, ok := list[i].(*ast.AssignStmt)
					if !ok || as.Tok != token.DEFINE || len(as.Lhs) != 1 || len(as.Rhs) != 1 {
						continue
					}
					id, ok := as.Lhs[0].(*ast.Ident)
					if !ok || id.Name == "_" {
						continue
					}
					obj := info.Defs[id]
					if obj == nil || uses[obj] != 1 {
						continue
					}
					if bt, ok := obj.Type().Underlying().(*types.Basic); !ok || bt.Kind() != types.Bool {
						continue
					}
					ifs, ok := list[i+1].(*ast.IfStmt)
					if !ok || ifs.Init != nil {
						continue
					}
					cond := ifs.Cond
					neg := false
					for {
						if pe, ok := cond.(*ast.ParenExpr); ok {
							cond = pe.X
							continue
						}
						if ue, ok := cond.(*ast.UnaryExpr); ok && ue.Op == token.NOT {
							neg = !neg
							cond = ue.X
							continue
						}
						break
					}
					cid, ok := cond.(*ast.Ident)
					if !ok || info.Uses[cid] != obj {
						continue
					}
					if src == nil {
						b, err := read(fname)
						if err != nil {
							break
						}
						src = b
					}
					expr := string(src[off(as.Rhs[0].Pos()):off(as.Rhs[0].End())])
					repl := "(" + expr + ")"
					if neg {
						repl = "!(" + expr + ")"
					}
					// the definition goes (newlines kept), the condition takes the expression
					nl := strings.Count(string(src[off(as.Pos()):off(as.End())]), "\n")
					edits = append(edits, edit{off(as.Pos()), off(as.End()), strings.Repeat("\n", nl)})
					edits = append(edits, edit{off(ifs.Cond.Pos()), off(ifs.Cond.End()), strings.ReplaceAll(repl, "\n", " ")})
					notes = append(notes, fmt.Sprintf("one-use condition variable %s at %s read as the condition itself", id.Name, shortPos(p.Fset.Position(as.Pos()))))
				}
			}
			ast.Inspect(f, func(n ast.Node) bool {
				switch x := n.(type) {
				case *ast.BlockStmt:
					visit(x.List)
				case *ast.CaseClause:
					visit(x.Body)
				case *ast.CommClause:
					visit(x.Body)
				}
				return true
			})
			if len(edits) == 0 {
				continue
			}
			sort.Slice(edits, func(i, j int) bool { return edits[i].start > edits[j].start })
			out := append([]byte{}, src...)
			for _, e := range edits {
				out = append(out[:e.start], append([]byte(e.text), out[e.end:]...)...)
			}
			overlay[fname] = out
		}
	}
	return overlay, notes
}
