package load

import (
	"fmt"
	"go/ast"
	"go/token"
	"go/types"
	"sort"
	"strings"

	"golang.org/x/tools/go/packages"
)

// ExplodeStructValues dissolves local variables of a new struct type that are handled BY VALUE —
// `pos := headerFilePos{file: f, offset: o}`, `loc := repo.locate(hash)` (once `locate` is expanded:
// `_ir = headerLocation{b, h}; loc := _ir`), `cur = next`, `pos.file++` — into one local variable
// per field. A refactoring that bundles two or three values that travel together (a hash and its
// height, a file index and an offset) into a small struct leaves, after helper expansion, a function
// in which those struct values are only ever built from their fields, copied as a whole and read
// through their fields; go/ssa keeps them as memory cells and the value-following rules lose them.
//
// A struct type T (of the module, unknown to the reference tree) is dissolved in a function only if
// EVERY local of type T in that function is used in these ways only:
//   - `v.f` (a direct field; `&v.f` is the address of the field's variable);
//   - whole-value definition or assignment from a composite literal of T, from another such local,
//     or `var v T`; as a statement of a block (not the init of an if/for/switch);
//   - `_ = v`;
//   - `p := &v` where the pointer local p is defined exactly there and is used only as `p.f` or
//     `_ = p` (the receiver temporary of an expanded pointer-receiver helper).
//
// Anything else — T passed to or returned from a call that is still a call, compared, stored in a
// slice or map, captured by a closure — leaves every T of that function alone.
func ExplodeStructValues(pkgs []*packages.Package, isNewStruct func(pkgPath, name string) bool, read func(string) ([]byte, error)) (map[string][]byte, []string) {
	overlay := map[string][]byte{}
	var notes []string
	counter := 0
	for _, p := range pkgs {
		for _, f := range p.Syntax {
			fname := p.Fset.Position(f.Pos()).Filename
			if strings.HasSuffix(fname, "_test.go") {
				continue
			}
			src, err := read(fname)
			if err != nil {
				continue
			}
			off := func(pos token.Pos) int { return p.Fset.Position(pos).Offset }
			var edits []edit
			var imps [][2]string
			for _, d := range f.Decls {
				fd, ok := d.(*ast.FuncDecl)
				if !ok || fd.Body == nil {
					continue
				}
				es, is, ns := explodeFunc(p, f, fd, src, isNewStruct, &counter, off)
				edits = append(edits, es...)
				imps = append(imps, is...)
				notes = append(notes, ns...)
			}
			if len(edits) == 0 {
				continue
			}
			sort.Slice(edits, func(i, j int) bool { return edits[i].start > edits[j].start })
			ok := true
			for i := 1; i < len(edits); i++ {
				if edits[i].end > edits[i-1].start {
					ok = false
				}
			}
			if !ok {
				continue
			}
			out := append([]byte{}, src...)
			for _, e := range edits {
				out = append(out[:e.start], append([]byte(e.text), out[e.end:]...)...)
			}
			if len(imps) > 0 {
				out = insertImports(out, imps)
			}
			overlay[fname] = out
		}
	}
	return overlay, notes
}

func explodeFunc(p *packages.Package, f *ast.File, fd *ast.FuncDecl, src []byte, isNewStruct func(string, string) bool, counter *int,
	off func(token.Pos) int) ([]edit, [][2]string, []string) {
	info := p.TypesInfo
	text := func(n ast.Node) string { return string(src[off(n.Pos()):off(n.End())]) }
	newStructOf := func(t types.Type) (*types.Named, *types.Struct) {
		nm, ok := t.(*types.Named)
		if !ok || nm.Obj().Pkg() == nil || !isNewStruct(nm.Obj().Pkg().Path(), nm.Obj().Name()) {
			return nil, nil
		}
		st, ok := nm.Underlying().(*types.Struct)
		if !ok || st.NumFields() == 0 || st.NumFields() > 8 {
			return nil, nil
		}
		for i := 0; i < st.NumFields(); i++ {
			if st.Field(i).Embedded() {
				return nil, nil
			}
		}
		return nm, st
	}
	// locals of a new struct type, by type
	locals := map[*types.Named]map[types.Object]bool{}
	params := map[types.Object]bool{}
	if fd.Type.Params != nil {
		for _, fl := range fd.Type.Params.List {
			for _, n := range fl.Names {
				params[info.Defs[n]] = true
			}
		}
	}
	if fd.Type.Results != nil {
		for _, fl := range fd.Type.Results.List {
			for _, n := range fl.Names {
				params[info.Defs[n]] = true
			}
		}
	}
	if fd.Recv != nil {
		for _, fl := range fd.Recv.List {
			for _, n := range fl.Names {
				params[info.Defs[n]] = true
			}
		}
	}
	ast.Inspect(fd.Body, func(n ast.Node) bool {
		id, ok := n.(*ast.Ident)
		if !ok {
			return true
		}
		o := info.Defs[id]
		if o == nil {
			return true
		}
		v, ok := o.(*types.Var)
		if !ok || v.IsField() {
			return true
		}
		if nm, _ := newStructOf(v.Type()); nm != nil {
			if locals[nm] == nil {
				locals[nm] = map[types.Object]bool{}
			}
			locals[nm][o] = true
		}
		return true
	})
	if len(locals) == 0 {
		return nil, nil, nil
	}
	parents := map[ast.Node]ast.Node{}
	var stack []ast.Node
	ast.Inspect(fd.Body, func(n ast.Node) bool {
		if n == nil {
			stack = stack[:len(stack)-1]
			return true
		}
		if len(stack) > 0 {
			parents[n] = stack[len(stack)-1]
		} else {
			parents[n] = fd
		}
		stack = append(stack, n)
		return true
	})
	isBlockItem := func(s ast.Node) bool {
		switch par := parents[s].(type) {
		case *ast.BlockStmt:
			return true
		case *ast.CaseClause:
			return true
		case *ast.CommClause:
			return par.Comm != s
		case *ast.LabeledStmt:
			return true
		}
		return false
	}
	var allEdits []edit
	var allImps [][2]string
	var notes []string
	var types_ []*types.Named
	for nm := range locals {
		types_ = append(types_, nm)
	}
	sort.Slice(types_, func(i, j int) bool { return types_[i].Obj().Name() < types_[j].Obj().Name() })
	for _, nm := range types_ {
		vars := locals[nm]
		_, st := newStructOf(nm)
		// a parameter or result of type T, or a closure: leave alone
		bad := ""
		for o := range params {
			if o != nil && types.Identical(o.Type(), nm) {
				bad = "parameter or result of the struct type"
			}
		}
		isVar := func(e ast.Expr) types.Object {
			for {
				pe, ok := e.(*ast.ParenExpr)
				if !ok {
					break
				}
				e = pe.X
			}
			if id, ok := e.(*ast.Ident); ok {
				o := info.Uses[id]
				if o == nil {
					o = info.Defs[id]
				}
				if o != nil && vars[o] {
					return o
				}
			}
			return nil
		}
		isLit := func(e ast.Expr) *ast.CompositeLit {
			for {
				pe, ok := e.(*ast.ParenExpr)
				if !ok {
					break
				}
				e = pe.X
			}
			cl, ok := e.(*ast.CompositeLit)
			if !ok {
				return nil
			}
			if tv, ok := info.Types[cl]; ok && types.Identical(tv.Type, nm) {
				return cl
			}
			return nil
		}
		// a package-level variable of the type (`noPosition`), read as a whole
		isGlobal := func(e ast.Expr) *ast.Ident {
			for {
				pe, ok := e.(*ast.ParenExpr)
				if !ok {
					break
				}
				e = pe.X
			}
			id, ok := e.(*ast.Ident)
			if !ok {
				return nil
			}
			v, ok := info.Uses[id].(*types.Var)
			if !ok || v.Pkg() == nil || v.Parent() != v.Pkg().Scope() || !types.Identical(v.Type(), nm) {
				return nil
			}
			return id
		}
		// pointer temporaries bound once to &v
		ptrOf := map[types.Object]types.Object{} // p → v
		ptrDef := map[types.Object]ast.Stmt{}
		ast.Inspect(fd.Body, func(n ast.Node) bool {
			as, ok := n.(*ast.AssignStmt)
			if !ok || as.Tok != token.DEFINE || len(as.Lhs) != 1 || len(as.Rhs) != 1 {
				return true
			}
			id, ok := as.Lhs[0].(*ast.Ident)
			if !ok {
				return true
			}
			ue, ok := as.Rhs[0].(*ast.UnaryExpr)
			if !ok || ue.Op != token.AND {
				return true
			}
			if v := isVar(ue.X); v != nil && info.Defs[id] != nil {
				ptrOf[info.Defs[id]] = v
				ptrDef[info.Defs[id]] = as
			}
			return true
		})
		handled := map[*ast.Ident]bool{}
		type selUse struct {
			sel *ast.SelectorExpr
			v   types.Object
			fld string
		}
		var sels []selUse
		type wholeAsg struct {
			stmt *ast.AssignStmt
		}
		var asgs []*ast.AssignStmt
		var decls []*ast.DeclStmt
		var blanks []ast.Stmt
		var ptrStmts []ast.Stmt
		seenAsg := map[*ast.AssignStmt]bool{}
		markIdent := func(e ast.Expr) {
			for {
				pe, ok := e.(*ast.ParenExpr)
				if !ok {
					break
				}
				e = pe.X
			}
			if id, ok := e.(*ast.Ident); ok {
				handled[id] = true
			}
		}
		ast.Inspect(fd.Body, func(n ast.Node) bool {
			if bad != "" {
				return false
			}
			switch x := n.(type) {
			case *ast.FuncLit:
				// a closure that mentions one of the variables: leave the type alone
				ast.Inspect(x, func(y ast.Node) bool {
					if id, ok := y.(*ast.Ident); ok {
						o := info.Uses[id]
						if o != nil && (vars[o] || ptrOf[o] != nil) {
							bad = "captured by a closure"
						}
					}
					return bad == ""
				})
				return false
			case *ast.SelectorExpr:
				var base types.Object
				if v := isVar(x.X); v != nil {
					base = v
				} else if id, ok := x.X.(*ast.Ident); ok && ptrOf[info.Uses[id]] != nil {
					base = ptrOf[info.Uses[id]]
				} else if se, ok := x.X.(*ast.StarExpr); ok {
					if id, ok := se.X.(*ast.Ident); ok && ptrOf[info.Uses[id]] != nil {
						base = ptrOf[info.Uses[id]]
						handled[id] = true
					}
				}
				if base == nil {
					return true
				}
				sel, isSel := info.Selections[x]
				if !isSel || sel.Kind() != types.FieldVal || len(sel.Index()) != 1 {
					bad = "method value or promoted field"
					return false
				}
				// `&v.f` becomes `&v_f`: the field's storage is only ever reached through the field
				sels = append(sels, selUse{x, base, sel.Obj().Name()})
				markIdent(x.X)
				return false
			case *ast.AssignStmt:
				if len(x.Lhs) != len(x.Rhs) {
					return true
				}
				// `_ = v`, `_ = p`
				if len(x.Lhs) == 1 {
					if l, ok := x.Lhs[0].(*ast.Ident); ok && l.Name == "_" {
						if v := isVar(x.Rhs[0]); v != nil {
							blanks = append(blanks, x)
							markIdent(x.Rhs[0])
							return false
						}
						if id, ok := x.Rhs[0].(*ast.Ident); ok && ptrOf[info.Uses[id]] != nil {
							blanks = append(blanks, x)
							handled[id] = true
							return false
						}
					}
					if o := info.Defs[identOf(x.Lhs[0])]; o != nil && ptrOf[o] != nil && ptrDef[o] == ast.Stmt(x) {
						ptrStmts = append(ptrStmts, x)
						handled[identOf(x.Lhs[0])] = true
						if ue, ok := x.Rhs[0].(*ast.UnaryExpr); ok {
							markIdent(ue.X)
						}
						return false
					}
				}
				involved := false
				for i := range x.Lhs {
					lv := isVar(x.Lhs[i])
					rv := isVar(x.Rhs[i])
					rl := isLit(x.Rhs[i])
					rg := isGlobal(x.Rhs[i])
					if lv == nil && rv == nil && rl == nil {
						continue
					}
					if lv != nil && rg != nil {
						involved = true
						markIdent(x.Lhs[i])
						continue
					}
					if bl, ok := x.Lhs[i].(*ast.Ident); ok && bl.Name == "_" && rv != nil {
						// `_, _ = a, v`: the blank use of a whole value
						involved = true
						markIdent(x.Rhs[i])
						continue
					}
					if lv == nil || (rv == nil && rl == nil) {
						// a struct value flowing to or from something else
						if lv != nil || rv != nil {
							bad = "whole value assigned from or to something that is not a local of the type at " + p.Fset.Position(x.Pos()).String()
							return false
						}
						continue // a literal of T assigned elsewhere: not ours, but then T escapes
					}
					involved = true
					markIdent(x.Lhs[i])
					if rv != nil {
						markIdent(x.Rhs[i])
					}
					if rl != nil {
						for _, e := range rl.Elts {
							if kv, ok := e.(*ast.KeyValueExpr); ok {
								if _, isID := kv.Key.(*ast.Ident); !isID {
									bad = "literal with a non-identifier key"
									return false
								}
							}
						}
					}
				}
				if involved {
					if x.Tok != token.DEFINE && x.Tok != token.ASSIGN {
						bad = "compound assignment of a whole value"
						return false
					}
					if !isBlockItem(x) {
						// the init / post statement of a for, the init of an if or switch: a parallel
						// assignment is still one simple statement there
						switch par := parents[x].(type) {
						case *ast.ForStmt:
							if par.Init != ast.Stmt(x) && par.Post != ast.Stmt(x) {
								bad = "whole-value assignment in an unsupported position"
								return false
							}
						case *ast.IfStmt, *ast.SwitchStmt:
						default:
							bad = "whole-value assignment in an unsupported position"
							return false
						}
					}
					if !seenAsg[x] {
						seenAsg[x] = true
						asgs = append(asgs, x)
					}
				}
				return true
			case *ast.DeclStmt:
				gd, ok := x.Decl.(*ast.GenDecl)
				if !ok || gd.Tok != token.VAR {
					return true
				}
				for _, sp := range gd.Specs {
					vs := sp.(*ast.ValueSpec)
					for _, nmI := range vs.Names {
						if o := info.Defs[nmI]; o != nil && vars[o] {
							if len(gd.Specs) != 1 || len(vs.Names) != 1 || len(vs.Values) != 0 || !isBlockItem(x) {
								bad = "var declaration of an unsupported form"
								return false
							}
							decls = append(decls, x)
							handled[nmI] = true
						}
					}
				}
				return true
			}
			return true
		})
		if bad == "" {
			// any other mention of a variable or pointer temporary → give up
			ast.Inspect(fd.Body, func(n ast.Node) bool {
				if id, ok := n.(*ast.Ident); ok && !handled[id] {
					o := info.Uses[id]
					if o == nil {
						o = info.Defs[id]
					}
					if o != nil && (vars[o] || ptrOf[o] != nil) {
						bad = "used as a whole value at " + p.Fset.Position(id.Pos()).String()
					}
				}
				return bad == ""
			})
		}
		// pointer temporaries must be defined exactly once (no reassignment)
		if bad == "" {
			for po := range ptrOf {
				n := 0
				ast.Inspect(fd.Body, func(y ast.Node) bool {
					if as, ok := y.(*ast.AssignStmt); ok {
						for _, l := range as.Lhs {
							if id, ok := l.(*ast.Ident); ok && (info.Defs[id] == po || info.Uses[id] == po) {
								n++
							}
						}
					}
					return true
				})
				if n != 1 {
					bad = "pointer temporary reassigned"
				}
			}
		}
		if bad != "" {
			sroaDebug("values of " + nm.Obj().Name() + " in " + fd.Name.Name + " left alone: " + bad)
			continue
		}
		// render
		*counter++
		cn := *counter
		fieldT := map[string]string{}
		okT := true
		for i := 0; i < st.NumFields(); i++ {
			tt, im, ok := typeText(p, f, st.Field(i).Type())
			if !ok {
				okT = false
			}
			allImps = append(allImps, im...)
			fieldT[st.Field(i).Name()] = tt
		}
		if !okT {
			continue
		}
		vname := func(v types.Object, fld string) string {
			return fmt.Sprintf("_sv%d_%s_%s", cn, strings.TrimLeft(v.Name(), "_"), fld)
		}
		fieldsOf := func(v types.Object) []string {
			var out []string
			for i := 0; i < st.NumFields(); i++ {
				out = append(out, vname(v, st.Field(i).Name()))
			}
			return out
		}
		// text of a node with the field selectors inside it replaced
		render := func(n ast.Node) string {
			t := text(n)
			base := off(n.Pos())
			type rp struct {
				a, b int
				t    string
			}
			var rs []rp
			for _, su := range sels {
				if n.Pos() <= su.sel.Pos() && su.sel.End() <= n.End() {
					rs = append(rs, rp{off(su.sel.Pos()) - base, off(su.sel.End()) - base, vname(su.v, su.fld)})
				}
			}
			sort.Slice(rs, func(i, j int) bool { return rs[i].a > rs[j].a })
			for _, r := range rs {
				t = t[:r.a] + r.t + t[r.b:]
			}
			return t
		}
		// names must be unique per variable object: two locals with the same name in different scopes
		// get the same field names, which is fine only when both are defined by `:=`/var in their own
		// scope — it is (each definition site declares its own field variables)
		litValues := func(cl *ast.CompositeLit) ([]string, bool) {
			vals := make([]string, st.NumFields())
			for i := range vals {
				vals[i] = "*new(" + fieldT[st.Field(i).Name()] + ")"
				if zeroIsNil(st.Field(i).Type()) {
					vals[i] = "(" + fieldT[st.Field(i).Name()] + ")(nil)"
				}
			}
			for i, e := range cl.Elts {
				if kv, ok := e.(*ast.KeyValueExpr); ok {
					k := kv.Key.(*ast.Ident).Name
					found := false
					for j := 0; j < st.NumFields(); j++ {
						if st.Field(j).Name() == k {
							vals[j] = "(" + render(kv.Value) + ")"
							found = true
						}
					}
					if !found {
						return nil, false
					}
				} else {
					if i >= st.NumFields() {
						return nil, false
					}
					vals[i] = "(" + render(e) + ")"
				}
			}
			return vals, true
		}
		var local []edit
		fail := false
		for _, as := range asgs {
			var ls, rs []string
			for i := range as.Lhs {
				lv := isVar(as.Lhs[i])
				if lv == nil {
					if bl, ok := as.Lhs[i].(*ast.Ident); ok && bl.Name == "_" {
						if rv := isVar(as.Rhs[i]); rv != nil {
							for range fieldsOf(rv) {
								ls = append(ls, "_")
							}
							rs = append(rs, fieldsOf(rv)...)
							continue
						}
					}
					ls = append(ls, render(as.Lhs[i]))
					rs = append(rs, render(as.Rhs[i]))
					continue
				}
				ls = append(ls, fieldsOf(lv)...)
				if rv := isVar(as.Rhs[i]); rv != nil {
					rs = append(rs, fieldsOf(rv)...)
				} else if rg := isGlobal(as.Rhs[i]); rg != nil {
					for j := 0; j < st.NumFields(); j++ {
						rs = append(rs, rg.Name+"."+st.Field(j).Name())
					}
				} else {
					vals, ok := litValues(isLit(as.Rhs[i]))
					if !ok {
						fail = true
						break
					}
					rs = append(rs, vals...)
				}
			}
			if fail {
				break
			}
			t := strings.Join(ls, ", ") + " " + as.Tok.String() + " " + strings.Join(rs, ", ")
			// keep every field variable "used"
			var us []string
			for i := range as.Lhs {
				if lv := isVar(as.Lhs[i]); lv != nil {
					us = append(us, fieldsOf(lv)...)
				}
			}
			if len(us) > 0 && isBlockItem(as) {
				t += "; " + strings.Repeat("_, ", len(us)-1) + "_ = " + strings.Join(us, ", ")
			}
			local = append(local, edit{off(as.Pos()), off(as.End()), strings.ReplaceAll(t, "\n", " ")})
		}
		if fail {
			continue
		}
		for _, ds := range decls {
			vs := ds.Decl.(*ast.GenDecl).Specs[0].(*ast.ValueSpec)
			v := info.Defs[vs.Names[0]]
			var b strings.Builder
			for i := 0; i < st.NumFields(); i++ {
				fn := st.Field(i).Name()
				b.WriteString(fmt.Sprintf("var %s %s; _ = %s; ", vname(v, fn), fieldT[fn], vname(v, fn)))
			}
			local = append(local, edit{off(ds.Pos()), off(ds.End()), b.String()})
		}
		for _, s := range sels {
			inAsg := false
			for _, as := range asgs {
				if as.Pos() <= s.sel.Pos() && s.sel.End() <= as.End() {
					inAsg = true
				}
			}
			if !inAsg {
				local = append(local, edit{off(s.sel.Pos()), off(s.sel.End()), vname(s.v, s.fld)})
			}
		}
		for _, b := range blanks {
			if !isBlockItem(b) {
				fail = true
			}
			local = append(local, edit{off(b.Pos()), off(b.End()), "{}"})
		}
		for _, s := range ptrStmts {
			if !isBlockItem(s) {
				fail = true
			}
			local = append(local, edit{off(s.Pos()), off(s.End()), "{}"})
		}
		if fail {
			continue
		}
		sort.Slice(local, func(i, j int) bool { return local[i].start < local[j].start })
		overlap := false
		for i := 1; i < len(local); i++ {
			if local[i].start < local[i-1].end {
				overlap = true
			}
		}
		if overlap {
			// a selector inside a rewritten whole-value assignment (`v = T{a: w.a}`): re-render with
			// the selectors replaced inside the statement text is not supported
			continue
		}
		allEdits = append(allEdits, local...)
		notes = append(notes, fmt.Sprintf("values of the new struct type %s in %s (built, copied and read field by field only) analysed as one variable per field", nm.Obj().Name(), fd.Name.Name))
	}
	return allEdits, allImps, notes
}

func identOf(e ast.Expr) *ast.Ident {
	id, _ := e.(*ast.Ident)
	return id
}
