#!/bin/bash
# runs every check against every round-2 candidate in ${MUTBASE:-/tmp/mut3}/Cnn/_out/{A,B}; prints which checks fire
set -u
tmp=$(mktemp -d /tmp/matrix2.XXXXXX)
one() {
  d=$1; tmp=$2
  id=$(echo $d | sed 's#.*/\(C[0-9]*\)/_out/\([AB]\)#\1-\2#')
  wt=$(mktemp -d /tmp/wt_m2.XXXXXX)
  rsync -a --exclude .git --exclude _out /repo/ $wt/
  if ! patch -p1 -s -f -d $wt -i $d/patch.diff >/dev/null 2>&1; then echo "$id PATCH-FAIL" > $tmp/$id.txt; rm -rf $wt; return; fi
  sc=$(mktemp -d /tmp/vsc.XXXXXX)
  /verif/bin/vcheck -repo $wt -property all -verif $sc > $tmp/$id.log 2>&1
  python3 - "$id" "$tmp/$id.log" > $tmp/$id.txt <<'PY'
import sys,re
id,log=sys.argv[1],sys.argv[2]
hits={}
for l in open(log,errors='replace'):
    m=re.match(r'VIOLATION property=(C\d+) replay=[^#\s]+#(.*)$', l.strip())
    if m: hits.setdefault(m.group(1),[]).append(m.group(2))
own=id[:3]
print(id, "OWN" if own in hits else "MISS", {k:len(v) for k,v in hits.items()})
PY
  rm -rf $wt $sc
}
export -f one
ls -d ${MUTBASE:-/tmp/mut3}/C*/_out/[AB] | xargs -P 8 -I{} bash -c "one {} $tmp"
cat $tmp/*.txt | sort
mkdir -p /tmp/matrix2_logs; cp $tmp/*.log /tmp/matrix2_logs/ 2>/dev/null
rm -rf $tmp
