#!/bin/bash
# usage: refquick.sh <dir with patch.diff> — analysis only (no build/test) of a refactoring patch
d=$1
wt=$(mktemp -d /tmp/wt_rq.XXXXXX)
rsync -a --exclude .git --exclude _out /repo/ $wt/
if ! patch -p1 -s -f -d $wt -i $d/patch.diff >/dev/null 2>&1; then echo "== $d PATCH DOES NOT APPLY"; rm -rf $wt; exit 0; fi
sc=$(mktemp -d /tmp/vsc.XXXXXX)
out=$(${VCHECK:-/verif/bin/vcheck} -repo $wt -property all -verif $sc | grep "^REPORT\|^note:" | sed "s#$wt/##g" | cut -c1-420)
rm -rf $wt $sc
echo "== $d alarms=$(echo "$out" | grep -c '^REPORT')"
echo "$out" | grep -v "^$"
