#!/usr/bin/env python3
"""Regenerates /verif/MANIFEST.json from the table below (claimed checks) and properties.jsonl."""
import json, os
V = os.path.dirname(os.path.dirname(os.path.abspath(__file__)))
ids = [json.loads(l)['id'] for l in open(os.path.join(V, 'properties.jsonl'))]

# id -> (technique, what is decided, what is NOT decided / trusted base, design ref)
CLAIMS = {}
def claim(i, technique, text, note, ref):
    CLAIMS[i] = (technique, text, note, ref)

ENV = "GOFLAGS=-mod=mod GOPROXY=off GOSUMDB=off GOTOOLCHAIN=local GOWORK=off"
exec(open(os.path.join(V, 'tools', 'claims.py')).read())

checks = []
for i in ids:
    if i not in CLAIMS:
        continue
    tech, text, note, ref = CLAIMS[i]
    if i in globals().get('R4', {}):
        text = text + " " + R4[i]
    if i in globals().get('R5', {}):
        text = text + " " + R5[i]
    if i in globals().get('R6', {}):
        text = text + " " + R6[i]
    if i in globals().get('R7', {}):
        text = text + " " + R7[i]
    if i in globals().get('R8', {}):
        text = text + " " + R8[i]
    if i in globals().get('R9', {}):
        text = text + " " + R9[i]
    if i in globals().get('R10', {}):
        text = text + " " + R10[i]
    if i in globals().get('R11', {}):
        text = text + " " + R11[i]
    if i in globals().get('R12', {}):
        text = text + " " + R12[i]
    checks.append({
        "property_id": i,
        "quick_cmd": f"bin/vcheck -property {i} -tier quick",
        "thorough_cmd": f"bin/vcheck -property {i} -tier thorough",
        "evidence_file": f"/verif/evidence/{i}.json",
        "replay_cmd_template": f"bin/vcheck -property {i} -tier quick  # the obligation named after '#' in {{path}} is in the evidence file's coverage.samples and in the REPORT line",
        "engine": "vcheck",
        "level_claimed": {"category": "other", "text": text, "design_ref": ref},
        "level_note": note,
        "technique": tech,
    })
m = {
    "version": 1,
    "setup_cmd": f"cd /verif && {ENV} go build -o bin/vcheck ./cmd/vcheck",
    "hooks": {
        "guard": "verif",
        "enable": "none needed: the checks read the production build of /repo (go/packages, default build tags); no verif-tagged code exists in /repo",
        "baseline_off_cmd": f"cd /repo && {ENV} go test -vet=off -count=1 -timeout 25m ./...",
        "source_commits": [],
        "add_only": True,
    },
    "engines": [{
        "name": "vcheck", "path": "/verif/cmd/vcheck", "serves_properties": sorted(CLAIMS),
        "kind_free_text": "repository-specific static analyser: go/packages (type-checked syntax of /repo and its dependencies) -> go/ssa -> rule kit (edge dominance, must-pass, no-effect-before-error, writers/provenance, lockset, linear height-label interpreter, codec symmetry, nil-flow, consume typestate, alloc-bound, channel budget); nothing in /repo is executed",
    }],
    "checks": checks,
    "notes": "All checks are static (family: static analysis). Each decides structural necessary conditions of its property and says in level_note what it does not decide. Genuine defects found were repaired in /repo by 'fix:' commits; see known_findings.json and DESIGN.md sections 5, 10.3 and 10.9.",
    "not_applicable": [{"property_id": i, "reason": NA.get(i, "check not built yet (design in DESIGN.md section 4); will be claimed once vcheck decides it")} for i in ids if i not in CLAIMS],
}
json.dump(m, open(os.path.join(V, 'MANIFEST.json'), 'w'), indent=1)
print("claimed", sorted(CLAIMS), "n/a", [i for i in ids if i not in CLAIMS])
