#!/bin/bash
# usage: refcheck.sh <dir with patch.diff> — applies a behaviour-preserving refactoring to a scratch worktree,
# confirms build + 34 baseline tests, runs every check; prints alarms (expected: none)
set -u
d=$1
export GOFLAGS=-mod=mod GOPROXY=off GOSUMDB=off GOTOOLCHAIN=local
wt=$(mktemp -d /tmp/wt_rf.XXXXXX); rmdir $wt
git -C /repo worktree add -q --detach $wt HEAD || exit 2
if ! git -C $wt apply $d/patch.diff 2>/dev/null; then echo "$d: PATCH DOES NOT APPLY"; git -C /repo worktree remove --force $wt; exit 0; fi
cd $wt
b=ok; go build ./... >/dev/null 2>&1 || b=FAIL
n=$(go test -vet=off -count=1 -json ./... 2>/dev/null | python3 -c "
import sys,json
base=set(json.load(open('/root/.vp/BASELINE.json'))['stable_pass'])
res={}
for l in sys.stdin:
    try: e=json.loads(l)
    except: continue
    if e.get('Test') and e.get('Action') in('pass','fail','skip'): res[e['Package']+'::'+e['Test']]=e['Action']
print(len([b for b in base if res.get(b)=='pass']))")
sc=$(mktemp -d /tmp/vsc.XXXXXX)
out=$(/verif/bin/vcheck -repo $wt -property all -verif $sc | grep "^REPORT\|rename followed" | sed "s#$wt/##g" | cut -c1-420)
cd /; git -C /repo worktree remove --force $wt; rm -rf $sc
echo "== $d build=$b suite=$n alarms=$(echo "$out" | grep -c '^REPORT')"
echo "$out" | grep -v "^$"
