#!/bin/bash
# usage: trymut.sh <patch.diff> <property>[,<property>...]   — applies the patch to a scratch worktree of
# /repo HEAD under /tmp, runs vcheck against it, removes the worktree. Never touches /repo's tree.
set -u
patch=$1; props=$2
wt=$(mktemp -d /tmp/wt_try.XXXXXX); rmdir $wt
git -C /repo worktree add -q --detach $wt HEAD || exit 2
if ! git -C $wt apply "$patch"; then echo "PATCH DOES NOT APPLY"; git -C /repo worktree remove --force $wt; exit 2; fi
rc=0
for p in ${props//,/ }; do
  /verif/bin/vcheck -repo $wt -property $p -verif /tmp/vcheck_scratch | grep -v "^VIOLATION" | sed "s#$wt/##g" | cut -c1-420
  [ ${PIPESTATUS[0]} -ne 0 ] && rc=1
done
git -C /repo worktree remove --force $wt
exit $rc
