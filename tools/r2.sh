#!/bin/bash
# usage: r2.sh Cxx — confirm round-2 mutants of a property and run its check on them
for ab in A B; do
  d=${MUTBASE:-/tmp/mut3}/$1/_out/$ab
  [ -f $d/meta.json ] || { echo "$1-$ab: no meta.json"; continue; }
  c=$(/verif/tools/confirm_mutant.sh $d)
  echo "$1-$ab confirm: $(echo $c | python3 -c "import sys,json; e=json.load(sys.stdin); print(e['applies'],e['build'],e['suite_pass'],e['demo_with_patch'],e['demo_without_patch'])")"
  /verif/tools/trymut.sh $d/patch.diff $1 | grep -v "^property" | cut -c1-330
done
