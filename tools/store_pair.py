#!/usr/bin/env python3
"""store_pair.py <round> <base> <Cnn> <letter> <mode> [note]
mode: pair  -> seeded/Cnn-<letter> (M) + preserving/Cnn-R<next> (R)
      limit -> preserving_limits/Cnn-R<next> (R) only, with note
Reads <base>/Cnn/_out/{R,M}; the confirmation lines come from /tmp/conf_r<round>.out."""
import sys, json, os, shutil, re, glob
rnd, base, prop, letter, mode = sys.argv[1:6]
note = sys.argv[6] if len(sys.argv) > 6 else ""
R = f"{base}/{prop}/_out/R"; M = f"{base}/{prop}/_out/M"
conf = open(f"/tmp/conf_r{rnd}.out").read()
mR = re.search(rf"^{prop} R: build=(\w+) suite=(\d+) demo_of_M_with_R=(\w+)", conf, re.M)
mM = None
for l in conf.splitlines():
    if l.startswith("{") and f"/{prop}/_out/M" in l:
        mM = json.loads(l)
assert mR and mM, "no confirmation for " + prop
assert mR.group(1) == "ok" and mR.group(2) == "34" and mR.group(3) == "pass", mR.group(0)
assert mM["applies"] and mM["build"] and mM["suite_pass"] == 34 and mM["demo_with_patch"] == "fail" and mM["demo_without_patch"] == "pass", mM
head = os.popen("git -C /repo rev-parse --short HEAD").read().strip()
nums = [int(re.search(r"-R(\d+)$", d).group(1)) for d in glob.glob(f"/verif/preserving/{prop}-R*") + glob.glob(f"/verif/preserving_limits/{prop}-R*")]
nxt = max(nums + [0]) + 1
rmeta = json.load(open(R + "/meta.json")); mmeta = json.load(open(M + "/meta.json"))
origin = ("written by a fresh sub-agent that saw only the property text, one-line summaries of the earlier changes for this property (to avoid repeats) and its own scratch worktree of /repo (nothing from /verif); asked for a PAIR at one site: a behaviour-preserving refactoring R, and M = the same refactoring plus one slip that breaks the property")
rid = f"{prop}-R{nxt}"
rdir = f"/verif/{'preserving' if mode == 'pair' else 'preserving_limits'}/{rid}"
os.makedirs(rdir, exist_ok=True)
shutil.copy(R + "/patch.diff", rdir + "/patch.diff")
rm = {"id": rid, "property": prop, "round": int(rnd), "kind": rmeta.get("kind", "refactoring of the site of " + prop + "-" + letter),
      "summary": rmeta.get("summary", ""), "files_changed": rmeta.get("files_changed", []), "origin": origin,
      "pair": f"{prop}-{letter}" if mode == "pair" else None,
      "confirmed_by_me": {"how": f"scratch git worktree of /repo HEAD ({head}) under /tmp (removed afterwards): build, baseline suite, and the demonstration of the paired change run against this refactoring",
                          "patch_applies": True, "builds": True, "baseline_tests_passing_with_patch": 34, "demo_of_paired_change": "pass"},
      "expected": "silent" if mode == "pair" else "alarm"}
if mode != "pair":
    rm["note"] = note
    rm["paired_change_summary"] = mmeta.get("summary", "")[:600]
json.dump(rm, open(rdir + "/meta.json", "w"), indent=1)
if mode == "pair":
    sid = f"{prop}-{letter}"
    sdir = f"/verif/seeded/{sid}"
    os.makedirs(sdir, exist_ok=True)
    shutil.copy(M + "/patch.diff", sdir + "/patch.diff")
    if os.path.exists(sdir + "/demo"):
        shutil.rmtree(sdir + "/demo")
    shutil.copytree(M + "/demo", sdir + "/demo")
    sm = {"id": sid, "property": prop, "round": int(rnd), "summary": mmeta.get("summary", ""), "files_changed": mmeta.get("files_changed", []),
          "needs_to_manifest": mmeta.get("needs_to_manifest", ""), "demo_run_cmd": mmeta.get("demo_run_cmd", ""), "origin": origin,
          "pair": rid,
          "confirmed_by_me": {"how": f"tools/confirm_mutant.sh in a scratch git worktree of /repo HEAD ({head}) under /tmp (removed afterwards)",
                              "patch_applies": True, "builds": True, "baseline_tests_passing_with_patch": 34,
                              "demo_with_patch": "fail", "demo_without_patch": "pass", "demo_with_paired_refactoring": "pass"}}
    json.dump(sm, open(sdir + "/meta.json", "w"), indent=1)
print("stored", prop, mode, rid)
