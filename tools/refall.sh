#!/bin/bash
# run refquick over all refactorings in /tmp/refac and summarise
rm -f /tmp/rq_*.log
ls -d /tmp/refac/C*/_out/R* | xargs -P 8 -I{} sh -c '/verif/tools/refquick.sh {} > /tmp/rq_$(echo {} | tr "/" "_").log 2>&1'
cat /tmp/rq_*.log | grep "^==" | awk '{print $3}' | sort | uniq -c
grep -L "alarms=0" /tmp/rq_*.log
