#!/bin/bash
# analysis-only replay of every stored behaviour-preserving refactoring (all 20 checks each); expected: no alarm
rm -f /tmp/rq_*.log
ls -d /verif/preserving/* | xargs -P 8 -I{} sh -c '/verif/tools/refquick.sh {} > /tmp/rq_$(basename {}).log 2>&1'
cat /tmp/rq_*.log | grep "^==" | awk '{print $3}' | sort | uniq -c
grep -L "alarms=0" /tmp/rq_*.log
