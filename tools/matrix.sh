#!/bin/bash
# runs every check against every seeded change (each in its own scratch worktree under /tmp) and
# writes /verif/seeded/MATRIX.json: which checks report a violation for which change.
set -u
out=/verif/seeded/MATRIX.json
tmp=$(mktemp -d /tmp/matrix.XXXXXX)
one() {
  d=$1; tmp=$2
  id=$(basename $d)
  wt=$(mktemp -d /tmp/wt_mx.XXXXXX); rmdir $wt
  git -C /repo worktree add -q --detach $wt HEAD || exit 2
  git -C $wt apply $d/patch.diff || { echo "{\"id\":\"$id\",\"error\":\"patch does not apply\"}" > $tmp/$id.json; git -C /repo worktree remove --force $wt; return; }
  sc=$(mktemp -d /tmp/vsc.XXXXXX); cp /verif/properties.jsonl $sc/
  /verif/bin/vcheck -repo $wt -property all -verif $sc > $tmp/$id.log 2>&1
  python3 - "$id" "$tmp/$id.log" > $tmp/$id.json <<'PY'
import sys,re,json
id,log=sys.argv[1],sys.argv[2]
hits={}
for l in open(log,errors='replace'):
    m=re.match(r'VIOLATION property=(C\d+) replay=[^#\s]+#(.*)$', l.strip())
    if m: hits.setdefault(m.group(1),[]).append(m.group(2))
print(json.dumps({"id":id,"violations":hits}))
PY
  git -C /repo worktree remove --force $wt; rm -rf $sc
}
export -f one
ls -d /verif/seeded/C*-[A-Z] | xargs -P 8 -I{} bash -c "one {} $tmp"
python3 - $tmp $out <<'PY'
import sys,json,glob
rows=[json.load(open(f)) for f in sorted(glob.glob(sys.argv[1]+'/*.json'))]
json.dump(rows, open(sys.argv[2],'w'), indent=1)
missed=[r['id'] for r in rows if not r.get('violations',{}).get(r['id'][:3])]
print("changes:",len(rows),"caught by own property's check:",len(rows)-len(missed),"missed:",missed)
for r in rows:
    print(r['id'], {k:len(v) for k,v in r.get('violations',{}).items()})
PY
rm -rf $tmp
