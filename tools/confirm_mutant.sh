#!/bin/bash
# usage: confirm_mutant.sh <dir with patch.diff, demo/, meta.json> — confirms in a scratch worktree of /repo HEAD:
# patch applies, builds, baseline suite still passes (34), demo FAILS with the patch and PASSES without it.
# prints one JSON line with the outcome.
set -u
src=$1
export GOFLAGS=-mod=mod GOPROXY=off GOSUMDB=off GOTOOLCHAIN=local
wt=$(mktemp -d /tmp/wt_conf.XXXXXX); rmdir $wt
git -C /repo worktree add -q --detach $wt HEAD || exit 2
cd $wt
applies=true; git apply "$src/patch.diff" 2>/dev/null || applies=false
build=false; suite=0; demo_with="n/a"; demo_without="n/a"
cmd=$(python3 -c "import json,sys; print(json.load(open('$src/meta.json')).get('demo_run_cmd',''))")
if $applies; then
  go build ./... >/dev/null 2>&1 && build=true
  suite=$(go test -vet=off -count=1 -json -timeout 20m ./... 2>/dev/null | python3 -c "
import sys,json
base=set(json.load(open('/root/.vp/BASELINE.json'))['stable_pass'])
res={}
for l in sys.stdin:
    try: e=json.loads(l)
    except: continue
    if e.get('Test') and e.get('Action') in('pass','fail','skip'): res[e['Package']+'::'+e['Test']]=e['Action']
print(len([b for b in base if res.get(b)=='pass']))")
  cp -r "$src/demo/." . 
  if timeout 300 bash -c "$cmd" >/tmp/$(basename $wt).with.log 2>&1; then demo_with=pass; else demo_with=fail; fi
  git apply -R "$src/patch.diff"
  if timeout 300 bash -c "$cmd" >/tmp/$(basename $wt).without.log 2>&1; then demo_without=pass; else demo_without=fail; fi
fi
cd /
git -C /repo worktree remove --force $wt
rm -f /tmp/$(basename $wt).with.log /tmp/$(basename $wt).without.log
echo "{\"src\":\"$src\",\"applies\":$applies,\"build\":$build,\"suite_pass\":$suite,\"demo_with_patch\":\"$demo_with\",\"demo_without_patch\":\"$demo_without\",\"demo_cmd\":\"$(echo $cmd | sed 's/"/\\"/g')\"}"
