#!/bin/bash
# usage: matrix_add.sh Cnn-X ... : runs every check against the named stored changes only and merges
# the rows into seeded/MATRIX.json (tools/matrix.sh recomputes the whole table).
set -u
tmp=$(mktemp -d /tmp/matrix.XXXXXX)
one() {
  id=$1; tmp=$2; d=/verif/seeded/$id
  wt=$(mktemp -d /tmp/wt_mx.XXXXXX); rmdir $wt
  git -C /repo worktree add -q --detach $wt HEAD || exit 2
  git -C $wt apply $d/patch.diff || { echo "{\"id\":\"$id\",\"error\":\"patch does not apply\"}" > $tmp/$id.json; git -C /repo worktree remove --force $wt; return; }
  sc=$(mktemp -d /tmp/vsc.XXXXXX); cp /verif/properties.jsonl $sc/
  /verif/bin/vcheck -repo $wt -property all -verif $sc > $tmp/$id.log 2>&1
  python3 - "$id" "$tmp/$id.log" > $tmp/$id.json <<'PY'
import sys,re,json
id,log=sys.argv[1],sys.argv[2]
hits={}
for l in open(log,errors='replace'):
    m=re.match(r'VIOLATION property=(C\d+) replay=[^#\s]+#(.*)$', l.strip())
    if m: hits.setdefault(m.group(1),[]).append(m.group(2))
print(json.dumps({"id":id,"violations":hits}))
PY
  git -C /repo worktree remove --force $wt; rm -rf $sc
}
export -f one
printf '%s\n' "$@" | xargs -P 8 -I{} bash -c "one {} $tmp"
python3 - $tmp /verif/seeded/MATRIX.json <<'PY'
import sys,json,glob
rows={r['id']:r for r in json.load(open(sys.argv[2]))}
for f in glob.glob(sys.argv[1]+'/*.json'):
    r=json.load(open(f)); rows[r['id']]=r
    print(r['id'], "OWN" if r.get('violations',{}).get(r['id'][:3]) else "MISS", {k:len(v) for k,v in r.get('violations',{}).items()})
out=[rows[k] for k in sorted(rows)]
json.dump(out, open(sys.argv[2],'w'), indent=1)
missed=[r['id'] for r in out if not r.get('violations',{}).get(r['id'][:3])]
print("changes:",len(out),"missed:",missed)
PY
rm -rf $tmp
