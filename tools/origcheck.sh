#!/bin/bash
# runs every check on a scratch worktree of the pinned (pre-fix) commit and prints the violation count per property
set -u
wt=$(mktemp -d /tmp/wt_orig.XXXXXX); rmdir $wt
git -C /repo worktree add -q --detach $wt 0933270 || exit 2
sc=$(mktemp -d /tmp/vsc.XXXXXX); cp /verif/properties.jsonl $sc/
/verif/bin/vcheck -repo $wt -property all -verif $sc | grep "^VIOLATION" | sed 's/ replay=[^#]*#/ /' | sort | uniq -c | sort -k2 
git -C /repo worktree remove --force $wt; rm -rf $sc
