#!/bin/bash
# usage: refdbg.sh <dir with patch.diff> <prop> — leaves scratch tree in /tmp/rdbg and overlay dump in /tmp/rdbg_ov
rm -rf /tmp/rdbg /tmp/rdbg_ov /tmp/rdbg_sc; mkdir -p /tmp/rdbg /tmp/rdbg_ov /tmp/rdbg_sc
rsync -a --exclude .git --exclude _out /repo/ /tmp/rdbg/
patch -p1 -s -f -d /tmp/rdbg -i $1/patch.diff
VCHECK_DUMP_OVERLAY=/tmp/rdbg_ov /verif/bin/vcheck -repo /tmp/rdbg -property $2 -verif /tmp/rdbg_sc | grep "^REPORT\|^note" | cut -c1-600
