#!/usr/bin/env python3
"""store_single.py <round> <base> <Cnn> <letter> [caught_by]
Stores <base>/Cnn/_out/A as seeded/Cnn-<letter>; the confirmation line (tools/confirm_mutant.sh) is
read from /tmp/conf_r<round>.out and must show: applies, builds, 34 baseline tests, demo fails with
the change and passes without it."""
import sys, json, os, shutil
rnd, base, prop, letter = sys.argv[1:5]
A = f"{base}/{prop}/_out/A"
c = None
for l in open(f"/tmp/conf_r{rnd}.out"):
    if l.startswith("{") and f"/{prop}/_out/A" in l:
        c = json.loads(l)
assert c, "no confirmation for " + prop
assert c["applies"] and c["build"] and c["suite_pass"] == 34 and c["demo_with_patch"] == "fail" and c["demo_without_patch"] == "pass", c
head = os.popen("git -C /repo rev-parse --short HEAD").read().strip()
m = json.load(open(A + "/meta.json"))
sid = f"{prop}-{letter}"
sdir = f"/verif/seeded/{sid}"
os.makedirs(sdir, exist_ok=True)
shutil.copy(A + "/patch.diff", sdir + "/patch.diff")
if os.path.exists(sdir + "/demo"):
    shutil.rmtree(sdir + "/demo")
shutil.copytree(A + "/demo", sdir + "/demo")
sm = {"id": sid, "property": prop, "round": int(rnd), "summary": m.get("summary", ""), "files_changed": m.get("files_changed", []),
      "needs_to_manifest": m.get("needs_to_manifest", ""), "demo_run_cmd": m.get("demo_run_cmd", ""),
      "origin": "written by a fresh sub-agent that saw only the property text, one-line summaries of earlier changes for this property (to avoid repeats) and its own scratch worktree of /repo (nothing from /verif)",
      "confirmed_by_me": {"how": f"tools/confirm_mutant.sh in a scratch git worktree of /repo HEAD ({head}) under /tmp (removed afterwards): git apply patch.diff; go build ./...; go test -vet=off -count=1 -json ./... (baseline 34 counted); demo copied in and run with the patch; patch reverted; demo run again",
                          "patch_applies": True, "builds": True, "baseline_tests_passing_with_patch": 34,
                          "demo_with_patch": "fail", "demo_without_patch": "pass"}}
json.dump(sm, open(sdir + "/meta.json", "w"), indent=1)
print("stored", sid)
