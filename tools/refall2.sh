#!/bin/bash
rm -f /tmp/rq2_*.log
(ls -d /tmp/refac2/C*/_out/R*; ls -d /tmp/refac/C20/_out/R*) | xargs -P 8 -I{} sh -c '/verif/tools/refquick.sh {} > /tmp/rq2_$(echo {} | tr "/" "_").log 2>&1'
cat /tmp/rq2_*.log | grep "^==" | awk '{print $3}' | sort | uniq -c
grep -L "alarms=0" /tmp/rq2_*.log
